package objmodel

// NewRealm builds the intrinsics the model algorithms reach through [[Get]]:
// Object.prototype (toString, valueOf, toLocaleString), Function.prototype,
// Array.prototype (itself an array, 15.4.4, carrying the 21 methods),
// String/Number/Boolean prototypes with toString/valueOf/toLocaleString.
func NewRealm() *Realm {
	r := &Realm{}
	r.ObjectPrototype = &Obj{Class: "Object", Extensible: true, props: map[string]*Desc{}, Label: "Object.prototype"}
	r.FunctionPrototype = &Obj{Class: "Function", Proto: r.ObjectPrototype, Extensible: true, props: map[string]*Desc{}, Label: "Function.prototype"}
	r.FunctionPrototype.Call = func(*Realm, Value, []Value) Value { return Undef }

	method := func(o *Obj, name string, f func(r *Realm, this Value, args []Value) Value) {
		fn := r.NewFunction(o.Label+"."+name, f)
		o.define(name, DataDesc(ObjV(fn), true, false, true))
	}

	// 15.2.4
	method(r.ObjectPrototype, "toString", objectProtoToString)
	method(r.ObjectPrototype, "toLocaleString", func(r *Realm, this Value, _ []Value) Value {
		o := r.ToObject(this) // 15.2.4.3
		ts := r.Get(o, "toString")
		if !IsCallable(ts) {
			throwType()
		}
		return ts.O.Call(r, ObjV(o), nil)
	})
	method(r.ObjectPrototype, "valueOf", func(r *Realm, this Value, _ []Value) Value { return ObjV(r.ToObject(this)) })

	// 15.4.4: the Array prototype object is itself an array
	r.ArrayPrototype = r.newArrayWithProto(r.ObjectPrototype)
	r.ArrayPrototype.Label = "Array.prototype"
	for _, m := range ArrayMethods {
		method(r.ArrayPrototype, m.Name, m.Fn)
	}

	prim := func(class string, pv Value, label string) *Obj {
		o := &Obj{Class: class, Proto: r.ObjectPrototype, Extensible: true, props: map[string]*Desc{}, Label: label, Prim: pv}
		thisPrim := func(this Value) Value {
			if this.K == pv.K {
				return this
			}
			if this.K == Object && this.O.Class == class {
				return this.O.Prim
			}
			throwType()
			return Undef
		}
		method(o, "toString", func(r *Realm, this Value, _ []Value) Value { return Str(r.ToString(thisPrim(this))) })
		method(o, "valueOf", func(r *Realm, this Value, _ []Value) Value { return thisPrim(this) })
		return o
	}
	r.StringPrototype = prim("String", Str(""), "String.prototype")
	r.StringPrototype.IsString = true
	r.StringPrototype.define("length", DataDesc(Num(0), false, false, false))
	r.NumberPrototype = prim("Number", Num(0), "Number.prototype")
	// 15.7.4.3: implementation-dependent; modelled as ToString for the values used
	method(r.NumberPrototype, "toLocaleString", func(r *Realm, this Value, _ []Value) Value {
		if this.K == Object {
			this = this.O.Prim
		}
		return Str(r.ToString(this))
	})
	r.BooleanPrototype = prim("Boolean", FalseV, "Boolean.prototype")
	return r
}

// objectProtoToString is 15.2.4.2.
func objectProtoToString(r *Realm, this Value, _ []Value) Value {
	switch this.K {
	case Undefined:
		return Str("[object Undefined]")
	case Null:
		return Str("[object Null]")
	}
	return Str("[object " + r.ToObject(this).Class + "]")
}

func (r *Realm) newArrayWithProto(proto *Obj) *Obj {
	a := r.NewObject()
	a.Class = "Array"
	a.IsArray = true
	a.Proto = proto
	a.define("length", DataDesc(Num(0), true, false, false))
	return a
}

// NewArray is "a new array created as if by the expression new Array()" (15.4.2.1 with no items).
func (r *Realm) NewArray() *Obj { return r.newArrayWithProto(r.ArrayPrototype) }

// Hole marks an elided element in NewArrayFrom.
var Hole = Value{K: Kind(255)}

// NewArrayFrom builds an array as an array initialiser (11.1.4) would:
// elisions (Hole) only advance the length.
func (r *Realm) NewArrayFrom(elems []Value) *Obj {
	a := r.NewArray()
	for i, e := range elems {
		if e.K == Hole.K {
			continue
		}
		r.DefineOwnProperty(a, NumberToString(float64(i)), DataDesc(e, true, true, true), false)
	}
	r.Put(a, "length", Num(float64(len(elems))), false)
	return a
}

// ArrayConstruct is 15.4.2 (and 15.4.1: calling Array as a function is the same).
func (r *Realm) ArrayConstruct(args []Value) Value {
	a := r.NewArray()
	if len(args) == 1 { // 15.4.2.2
		l := args[0]
		if l.K == Number {
			if float64(NumberToUint32(l.N)) != l.N {
				throwRange()
			}
			a.props["length"].Value = Num(float64(NumberToUint32(l.N))) // ToUint32(len): -0 becomes +0
			return ObjV(a)
		}
		a.props["length"].Value = Num(1)
		a.define("0", DataDesc(l, true, true, true))
		return ObjV(a)
	}
	// 15.4.2.1
	a.props["length"].Value = Num(float64(len(args)))
	for i, v := range args {
		a.define(NumberToString(float64(i)), DataDesc(v, true, true, true))
	}
	return ObjV(a)
}

// ArrayIsArray is 15.4.3.2.
func ArrayIsArray(v Value) bool { return v.K == Object && v.O.Class == "Array" }

// Fork returns a realm that shares the intrinsic objects with r but has its own
// log. Only for histories that never modify an intrinsic.
func (r *Realm) Fork() *Realm {
	c := *r
	c.Log = nil
	return &c
}
