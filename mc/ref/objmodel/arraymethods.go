package objmodel

import "math"

// ArrayMethod is one function property of Array.prototype (15.4.4.2-22).
type ArrayMethod struct {
	Name string
	Fn   func(r *Realm, this Value, args []Value) Value
}

// ArrayMethods lists the 21 function properties of 15.4.4 (15.4.4.1 is
// "constructor", which is not a method). Array.prototype.sort is specified by
// a predicate (see CheckSort), not by an algorithm, and is therefore absent from
// the step-by-step transcriptions; the entry here is a placeholder that sorts
// with an insertion sort using SortCompare so that model code calling it through
// [[Get]] still works.
var ArrayMethods []ArrayMethod

func init() {
	ArrayMethods = []ArrayMethod{
		{"toString", ArrayToString}, {"toLocaleString", ArrayToLocaleString}, {"concat", ArrayConcat},
		{"join", ArrayJoin}, {"pop", ArrayPop}, {"push", ArrayPush}, {"reverse", ArrayReverse},
		{"shift", ArrayShift}, {"slice", ArraySlice}, {"sort", ArraySortReference}, {"splice", ArraySplice},
		{"unshift", ArrayUnshift}, {"indexOf", ArrayIndexOf}, {"lastIndexOf", ArrayLastIndexOf},
		{"every", ArrayEvery}, {"some", ArraySome}, {"forEach", ArrayForEach}, {"map", ArrayMap},
		{"filter", ArrayFilter}, {"reduce", ArrayReduce}, {"reduceRight", ArrayReduceRight},
	}
}

func arg(args []Value, i int) Value {
	if i < len(args) {
		return args[i]
	}
	return Undef
}

func idx(k float64) string { return NumberToString(k) }

func (r *Realm) call(f Value, this Value, args ...Value) Value { return f.O.Call(r, this, args) }

var allTrue = func(v Value) Desc { return DataDesc(v, true, true, true) }

// ArrayToString is 15.4.4.2.
func ArrayToString(r *Realm, this Value, _ []Value) Value {
	array := r.ToObject(this)  // 1
	fn := r.Get(array, "join") // 2
	if !IsCallable(fn) {       // 3
		return objectProtoToString(r, ObjV(array), nil)
	}
	return r.call(fn, ObjV(array)) // 4
}

// ArrayToLocaleString is 15.4.4.3.
func ArrayToLocaleString(r *Realm, this Value, _ []Value) Value {
	array := r.ToObject(this)          // 1
	arrayLen := r.Get(array, "length") // 2
	length := r.ToUint32(arrayLen)     // 3
	separator := ","                   // 4
	if length == 0 {                   // 5
		return Str("")
	}
	elem := func(k uint32) string {
		e := r.Get(array, idx(float64(k)))
		if e.K == Undefined || e.K == Null {
			return ""
		}
		elementObj := r.ToObject(e)
		fn := r.GetWithReceiver(elementObj, "toLocaleString", ObjV(elementObj))
		if !IsCallable(fn) {
			throwType()
		}
		return r.ToString(r.call(fn, ObjV(elementObj)))
	}
	R := elem(0)                          // 6-8
	for k := uint32(1); k < length; k++ { // 9-10
		S := R + separator
		R = S + elem(k)
	}
	return Str(R) // 11
}

// ArrayConcat is 15.4.4.4. ES5.1 never sets "length" of A, so trailing holes of
// the last array argument would be lost; ES2015 (and every implementation)
// sets length to n at the end. The model follows ES2015 here (recorded model decision).
func ArrayConcat(r *Realm, this Value, args []Value) Value {
	O := r.ToObject(this)                      // 1
	A := r.NewArray()                          // 2
	n := 0.0                                   // 3
	items := append([]Value{ObjV(O)}, args...) // 4
	for _, E := range items {                  // 5
		if E.K == Object && E.O.Class == "Array" { // b
			k := 0.0
			length := r.ToNumber(r.Get(E.O, "length"))
			for k < length {
				P := idx(k)
				if r.HasProperty(E.O, P) {
					subElement := r.Get(E.O, P)
					r.DefineOwnProperty(A, idx(n), allTrue(subElement), false)
				} else if r.Quirk.ResultHolesUndefined {
					r.DefineOwnProperty(A, idx(n), allTrue(Undef), false)
				}
				n++
				k++
			}
		} else { // c
			r.DefineOwnProperty(A, idx(n), allTrue(E), false)
			n++
		}
	}
	r.Put(A, "length", Num(n), true) // ES2015 22.1.3.1 step 6
	return ObjV(A)                   // 6
}

// ArrayJoin is 15.4.4.5.
func ArrayJoin(r *Realm, this Value, args []Value) Value {
	O := r.ToObject(this) // 1
	separator := arg(args, 0)
	sep := ","
	if r.Quirk.JoinSeparatorFirst && separator.K != Undefined {
		sep = r.ToString(separator)
	}
	lenVal := r.Get(O, "length")                                 // 2
	length := r.ToUint32(lenVal)                                 // 3
	if !r.Quirk.JoinSeparatorFirst && separator.K != Undefined { // 4-5
		sep = r.ToString(separator)
	}
	if length == 0 { // 6
		return Str("")
	}
	elem := func(k uint32) string {
		e := r.Get(O, idx(float64(k)))
		if e.K == Undefined || e.K == Null {
			return ""
		}
		return r.ToString(e)
	}
	R := elem(0)                          // 7-8
	for k := uint32(1); k < length; k++ { // 9-10
		S := R + sep
		R = S + elem(k)
	}
	return Str(R) // 11
}

// ArrayPop is 15.4.4.6.
func ArrayPop(r *Realm, this Value, _ []Value) Value {
	O := r.ToObject(this)        // 1
	lenVal := r.Get(O, "length") // 2
	length := r.ToUint32(lenVal) // 3
	if length == 0 {             // 4
		r.Put(O, "length", Num(0), true)
		return Undef
	}
	// 5
	indx := idx(float64(length) - 1)
	element := r.Get(O, indx)
	r.Delete(O, indx, true)
	r.Put(O, "length", Num(float64(length)-1), true)
	return element
}

// ArrayPush is 15.4.4.7.
func ArrayPush(r *Realm, this Value, args []Value) Value {
	O := r.ToObject(this)            // 1
	lenVal := r.Get(O, "length")     // 2
	n := float64(r.ToUint32(lenVal)) // 3
	for _, E := range args {         // 4-5
		r.Put(O, idx(n), E, true)
		n++
	}
	r.Put(O, "length", Num(n), true) // 6
	return Num(n)                    // 7
}

// ArrayReverse is 15.4.4.8.
func ArrayReverse(r *Realm, this Value, _ []Value) Value {
	O := r.ToObject(this)                 // 1
	lenVal := r.Get(O, "length")          // 2
	length := float64(r.ToUint32(lenVal)) // 3
	middle := math.Floor(length / 2)      // 4
	lower := 0.0                          // 5
	for lower != middle {                 // 6
		upper := length - lower - 1
		upperP, lowerP := idx(upper), idx(lower)
		lowerValue := r.Get(O, lowerP)
		upperValue := r.Get(O, upperP)
		lowerExists := r.HasProperty(O, lowerP)
		upperExists := r.HasProperty(O, upperP)
		switch {
		case lowerExists && upperExists: // h
			r.Put(O, lowerP, upperValue, true)
			r.Put(O, upperP, lowerValue, true)
		case !lowerExists && upperExists: // i
			if r.Quirk.ReverseDeleteFirst {
				r.Delete(O, upperP, true)
				r.Put(O, lowerP, upperValue, true)
				break
			}
			r.Put(O, lowerP, upperValue, true)
			r.Delete(O, upperP, true)
		case lowerExists && !upperExists: // j
			r.Delete(O, lowerP, true)
			r.Put(O, upperP, lowerValue, true)
		}
		lower++
	}
	if r.Quirk.ReturnRawThis {
		return this
	}
	return ObjV(O) // 7
}

// ArrayShift is 15.4.4.9.
func ArrayShift(r *Realm, this Value, _ []Value) Value {
	O := r.ToObject(this)                 // 1
	lenVal := r.Get(O, "length")          // 2
	length := float64(r.ToUint32(lenVal)) // 3
	if length == 0 {                      // 4
		r.Put(O, "length", Num(0), true)
		return Undef
	}
	first := r.Get(O, "0") // 5
	k := 1.0               // 6
	for k < length {       // 7
		from, to := idx(k), idx(k-1)
		if r.HasProperty(O, from) {
			fromVal := r.Get(O, from)
			r.Put(O, to, fromVal, true)
		} else {
			r.Delete(O, to, true)
		}
		k++
	}
	r.Delete(O, idx(length-1), true)        // 8
	r.Put(O, "length", Num(length-1), true) // 9
	return first                            // 10
}

func relative(rel, length float64) float64 {
	if rel < 0 {
		return math.Max(length+rel, 0)
	}
	return math.Min(rel, length)
}

// ArraySlice is 15.4.4.10 (length of A set to n at the end as in ES2015; see ArrayConcat).
func ArraySlice(r *Realm, this Value, args []Value) Value {
	O := r.ToObject(this)                      // 1
	A := r.NewArray()                          // 2
	lenVal := r.Get(O, "length")               // 3
	length := float64(r.ToUint32(lenVal))      // 4
	relativeStart := r.ToInteger(arg(args, 0)) // 5
	k := relative(relativeStart, length)       // 6
	relativeEnd := length                      // 7
	if end := arg(args, 1); end.K != Undefined {
		relativeEnd = r.ToInteger(end)
	}
	final := relative(relativeEnd, length) // 8
	n := 0.0                               // 9
	for k < final {                        // 10
		Pk := idx(k)
		if r.HasProperty(O, Pk) {
			kValue := r.Get(O, Pk)
			r.DefineOwnProperty(A, idx(n), allTrue(kValue), false)
		} else if r.Quirk.ResultHolesUndefined {
			r.DefineOwnProperty(A, idx(n), allTrue(Undef), false)
		}
		k++
		n++
	}
	r.Put(A, "length", Num(n), true) // ES2015 22.1.3.22 step 15
	return ObjV(A)                   // 11
}

// ArraySplice is 15.4.4.12. Two recorded model decisions: with exactly one
// argument actualDeleteCount is len-actualStart (ES2015 22.1.3.25 step 9 and every
// implementation; the ES5.1 text would give 0), and A's length is set to
// actualDeleteCount (ES2015 step 14).
func ArraySplice(r *Realm, this Value, args []Value) Value {
	O := r.ToObject(this)                          // 1
	A := r.NewArray()                              // 2
	lenVal := r.Get(O, "length")                   // 3
	length := float64(r.ToUint32(lenVal))          // 4
	relativeStart := r.ToInteger(arg(args, 0))     // 5
	actualStart := relative(relativeStart, length) // 6
	var actualDeleteCount float64                  // 7
	switch len(args) {
	case 0:
		actualDeleteCount = 0
		if r.Quirk.SpliceNoArgsDeletesAll {
			actualDeleteCount = length - actualStart
		}
	case 1:
		actualDeleteCount = length - actualStart
	default:
		actualDeleteCount = math.Min(math.Max(r.ToInteger(args[1]), 0), length-actualStart)
	}
	k := 0.0                    // 8
	for k < actualDeleteCount { // 9
		from := idx(actualStart + k)
		if r.HasProperty(O, from) {
			fromValue := r.Get(O, from)
			r.DefineOwnProperty(A, idx(k), allTrue(fromValue), false)
		} else if r.Quirk.ResultHolesUndefined {
			r.DefineOwnProperty(A, idx(k), allTrue(Undef), false)
		}
		k++
	}
	r.Put(A, "length", Num(actualDeleteCount), true)
	var items []Value // 10
	if len(args) > 2 {
		items = args[2:]
	}
	itemCount := float64(len(items))   // 11
	if itemCount < actualDeleteCount { // 12
		k = actualStart
		for k < length-actualDeleteCount {
			from, to := idx(k+actualDeleteCount), idx(k+itemCount)
			if r.HasProperty(O, from) {
				fromValue := r.Get(O, from)
				r.Put(O, to, fromValue, true)
			} else {
				r.Delete(O, to, true)
			}
			k++
		}
		k = length
		for k > length-actualDeleteCount+itemCount {
			r.Delete(O, idx(k-1), true)
			k--
		}
	} else if itemCount > actualDeleteCount { // 13
		k = length - actualDeleteCount
		for k > actualStart {
			from, to := idx(k+actualDeleteCount-1), idx(k+itemCount-1)
			if r.HasProperty(O, from) {
				fromValue := r.Get(O, from)
				r.Put(O, to, fromValue, true)
			} else {
				r.Delete(O, to, true)
			}
			k--
		}
	}
	k = actualStart           // 14
	for _, E := range items { // 15
		r.Put(O, idx(k), E, true)
		k++
	}
	r.Put(O, "length", Num(length-actualDeleteCount+itemCount), true) // 16
	return ObjV(A)                                                    // 17
}

// ArrayUnshift is 15.4.4.13.
func ArrayUnshift(r *Realm, this Value, args []Value) Value {
	O := r.ToObject(this)                 // 1
	lenVal := r.Get(O, "length")          // 2
	length := float64(r.ToUint32(lenVal)) // 3
	argCount := float64(len(args))        // 4
	k := length                           // 5
	for k > 0 {                           // 6
		from, to := idx(k-1), idx(k+argCount-1)
		if r.HasProperty(O, from) {
			fromValue := r.Get(O, from)
			r.Put(O, to, fromValue, true)
		} else {
			r.Delete(O, to, true)
		}
		k--
	}
	j := 0.0                 // 7
	for _, E := range args { // 8-9
		r.Put(O, idx(j), E, true)
		j++
	}
	r.Put(O, "length", Num(length+argCount), true) // 10
	return Num(length + argCount)                  // 11
}

// ArrayIndexOf is 15.4.4.14.
func ArrayIndexOf(r *Realm, this Value, args []Value) Value {
	O := r.ToObject(this)                   // 1
	lenValue := r.Get(O, "length")          // 2
	length := float64(r.ToUint32(lenValue)) // 3
	if length == 0 {                        // 4
		return Num(-1)
	}
	n := 0.0 // 5
	if len(args) > 1 {
		n = r.ToInteger(args[1])
	}
	if n >= length { // 6
		return Num(-1)
	}
	var k float64
	if n >= 0 { // 7
		k = n + 0 // -0 (from ToInteger(-0.5)) becomes +0 as in ES2015 22.1.3.11 step 8; ES5.1 would return -0 (recorded model decision)
		if k == 0 {
			k = 0
		}
	} else { // 8
		k = length - math.Abs(n)
		if k < 0 {
			k = 0
		}
	}
	searchElement := arg(args, 0)
	for k < length { // 9
		Pk := idx(k)
		if r.HasProperty(O, Pk) {
			elementK := r.Get(O, Pk)
			if StrictEquals(searchElement, elementK) {
				return Num(k)
			}
		}
		k++
	}
	return Num(-1) // 10
}

// ArrayLastIndexOf is 15.4.4.15.
func ArrayLastIndexOf(r *Realm, this Value, args []Value) Value {
	O := r.ToObject(this)                                                                // 1
	lenValue := r.Get(O, "length")                                                       // 2
	length := float64(r.ToUint32(lenValue))                                              // 3
	if length == 0 && !r.Quirk.LastIndexOfClamp && !r.Quirk.LastIndexOfConvertsOnEmpty { // 4
		return Num(-1)
	}
	n := length - 1 // 5
	if len(args) > 1 {
		n = r.ToInteger(args[1])
	}
	var k float64
	if n >= 0 { // 6
		k = math.Min(n, length-1)
		if r.Quirk.LastIndexOfClamp {
			k = n
			if n > length {
				k = length - 1
			}
		}
		if k == 0 {
			k = 0 // +0, see ArrayIndexOf
		}
	} else { // 7
		k = length - math.Abs(n)
	}
	searchElement := arg(args, 0)
	for k >= 0 { // 8
		Pk := idx(k)
		if r.HasProperty(O, Pk) {
			elementK := r.Get(O, Pk)
			if StrictEquals(searchElement, elementK) {
				return Num(k)
			}
		}
		k--
	}
	return Num(-1) // 9
}

func iterPrologue(r *Realm, this Value, args []Value) (O *Obj, length float64, callbackfn, T Value) {
	O = r.ToObject(this) // 1
	callbackfn = arg(args, 0)
	if r.Quirk.CallableBeforeLength && !IsCallable(callbackfn) {
		throwType()
	}
	lenValue := r.Get(O, "length")         // 2
	length = float64(r.ToUint32(lenValue)) // 3
	if !IsCallable(callbackfn) {           // 4
		throwType()
	}
	T = arg(args, 1) // 5
	return
}

// ArrayEvery is 15.4.4.16.
func ArrayEvery(r *Realm, this Value, args []Value) Value {
	O, length, callbackfn, T := iterPrologue(r, this, args)
	for k := 0.0; k < length; k++ { // 6-7
		Pk := idx(k)
		if r.HasProperty(O, Pk) {
			kValue := r.Get(O, Pk)
			testResult := r.call(callbackfn, T, kValue, Num(k), ObjV(O))
			if !ToBoolean(testResult) {
				return FalseV
			}
		}
	}
	return TrueV // 8
}

// ArraySome is 15.4.4.17.
func ArraySome(r *Realm, this Value, args []Value) Value {
	O, length, callbackfn, T := iterPrologue(r, this, args)
	for k := 0.0; k < length; k++ {
		Pk := idx(k)
		if r.HasProperty(O, Pk) {
			kValue := r.Get(O, Pk)
			testResult := r.call(callbackfn, T, kValue, Num(k), ObjV(O))
			if ToBoolean(testResult) {
				return TrueV
			}
		}
	}
	return FalseV
}

// ArrayForEach is 15.4.4.18.
func ArrayForEach(r *Realm, this Value, args []Value) Value {
	O, length, callbackfn, T := iterPrologue(r, this, args)
	for k := 0.0; k < length; k++ {
		Pk := idx(k)
		if r.HasProperty(O, Pk) {
			kValue := r.Get(O, Pk)
			r.call(callbackfn, T, kValue, Num(k), ObjV(O))
		}
	}
	return Undef
}

// ArrayMap is 15.4.4.19.
func ArrayMap(r *Realm, this Value, args []Value) Value {
	O, length, callbackfn, T := iterPrologue(r, this, args)
	A := r.ArrayConstruct([]Value{Num(length)}).O // 6
	for k := 0.0; k < length; k++ {               // 7-8
		Pk := idx(k)
		if r.HasProperty(O, Pk) {
			kValue := r.Get(O, Pk)
			mappedValue := r.call(callbackfn, T, kValue, Num(k), ObjV(O))
			r.DefineOwnProperty(A, Pk, allTrue(mappedValue), false)
		} else if r.Quirk.ResultHolesUndefined {
			r.DefineOwnProperty(A, Pk, allTrue(Undef), false)
		}
	}
	return ObjV(A) // 9
}

// ArrayFilter is 15.4.4.20.
func ArrayFilter(r *Realm, this Value, args []Value) Value {
	O, length, callbackfn, T := iterPrologue(r, this, args)
	A := r.NewArray()               // 6
	to := 0.0                       // 8
	for k := 0.0; k < length; k++ { // 7, 9
		Pk := idx(k)
		if r.HasProperty(O, Pk) {
			kValue := r.Get(O, Pk)
			selected := r.call(callbackfn, T, kValue, Num(k), ObjV(O))
			if ToBoolean(selected) {
				r.DefineOwnProperty(A, idx(to), allTrue(kValue), false)
				to++
			}
		}
	}
	return ObjV(A) // 10
}

// ArrayReduce is 15.4.4.21.
func ArrayReduce(r *Realm, this Value, args []Value) Value {
	O := r.ToObject(this) // 1
	callbackfn := arg(args, 0)
	if r.Quirk.CallableBeforeLength && !IsCallable(callbackfn) {
		throwType()
	}
	lenValue := r.Get(O, "length")          // 2
	length := float64(r.ToUint32(lenValue)) // 3
	if !IsCallable(callbackfn) {            // 4
		throwType()
	}
	if length == 0 && len(args) < 2 { // 5
		throwType()
	}
	k := 0.0 // 6
	var accumulator Value
	if len(args) >= 2 { // 7
		accumulator = args[1]
	} else { // 8
		kPresent := false
		for !kPresent && k < length {
			Pk := idx(k)
			kPresent = r.HasProperty(O, Pk)
			if kPresent {
				accumulator = r.Get(O, Pk)
			}
			k++
		}
		if !kPresent {
			if r.Quirk.ReduceOnlyHolesUndefined {
				return Undef
			}
			throwType()
		}
	}
	for k < length { // 9
		Pk := idx(k)
		if r.HasProperty(O, Pk) {
			kValue := r.Get(O, Pk)
			accumulator = r.call(callbackfn, Undef, accumulator, kValue, Num(k), ObjV(O))
		}
		k++
	}
	return accumulator // 10
}

// ArrayReduceRight is 15.4.4.22.
func ArrayReduceRight(r *Realm, this Value, args []Value) Value {
	O := r.ToObject(this) // 1
	callbackfn := arg(args, 0)
	if r.Quirk.CallableBeforeLength && !IsCallable(callbackfn) {
		throwType()
	}
	lenValue := r.Get(O, "length")          // 2
	length := float64(r.ToUint32(lenValue)) // 3
	if !IsCallable(callbackfn) {            // 4
		throwType()
	}
	if length == 0 && len(args) < 2 { // 5
		throwType()
	}
	k := length - 1 // 6
	var accumulator Value
	if len(args) >= 2 { // 7
		accumulator = args[1]
	} else { // 8
		kPresent := false
		for !kPresent && k >= 0 {
			Pk := idx(k)
			kPresent = r.HasProperty(O, Pk)
			if kPresent {
				accumulator = r.Get(O, Pk)
			}
			k--
		}
		if !kPresent {
			if r.Quirk.ReduceOnlyHolesUndefined {
				return Undef
			}
			throwType()
		}
	}
	for k >= 0 { // 9
		Pk := idx(k)
		if r.HasProperty(O, Pk) {
			kValue := r.Get(O, Pk)
			kArg := Num(k)
			if r.Quirk.ReduceRightStringIndex {
				kArg = Str(Pk)
			}
			accumulator = r.call(callbackfn, Undef, accumulator, kValue, kArg, ObjV(O))
		}
		k--
	}
	return accumulator // 10
}

// SortCompare is the abstract operation of 15.4.4.11 applied to two element
// states (present?, value). comparefn may be Undefined.
func (r *Realm) SortCompare(hasj bool, x Value, hask bool, y Value, comparefn Value) float64 {
	switch {
	case !hasj && !hask: // 5
		return 0
	case !hasj: // 6
		return 1
	case !hask: // 7
		return -1
	}
	switch {
	case x.K == Undefined && y.K == Undefined: // 10
		return 0
	case x.K == Undefined: // 11
		return 1
	case y.K == Undefined: // 12
		return -1
	}
	if comparefn.K != Undefined { // 13
		if !IsCallable(comparefn) {
			throwType()
		}
		return r.ToNumber(r.call(comparefn, Undef, x, y))
	}
	xs, ys := r.ToString(x), r.ToString(y) // 14-15
	switch {
	case xs < ys: // 16
		return -1
	case xs > ys: // 17
		return 1
	}
	return 0 // 18
}

// ArraySortReference is a plain insertion sort over [[Get]]/[[Put]]/[[Delete]]
// driven by SortCompare. It is one conforming implementation of 15.4.4.11 and is
// used only where model code needs *a* sorted result; the C08 check judges
// otto's sort with CheckSort, which accepts every conforming result.
func ArraySortReference(r *Realm, this Value, args []Value) Value {
	O := r.ToObject(this)
	length := float64(r.ToUint32(r.Get(O, "length")))
	comparefn := arg(args, 0)
	type el struct {
		has bool
		v   Value
	}
	var els []el
	for k := 0.0; k < length; k++ {
		has := r.HasProperty(O, idx(k))
		v := Undef
		if has {
			v = r.Get(O, idx(k))
		}
		els = append(els, el{has, v})
	}
	for i := 1; i < len(els); i++ {
		for j := i; j > 0 && r.SortCompare(els[j-1].has, els[j-1].v, els[j].has, els[j].v, comparefn) > 0; j-- {
			els[j-1], els[j] = els[j], els[j-1]
		}
	}
	for k, e := range els {
		if e.has {
			r.Put(O, idx(float64(k)), e.v, true)
		} else {
			r.Delete(O, idx(float64(k)), true)
		}
	}
	if r.Quirk.ReturnRawThis {
		return this
	}
	return ObjV(O)
}
