package objmodel

import "math"

// Desc is a Property Descriptor (8.10): any subset of the six fields. A stored
// property is a fully populated data or accessor descriptor.
type Desc struct {
	Value                                                                 Value
	Get, Set                                                              Value // Undefined or a callable object
	Writable, Enumerable, Configurable                                    bool
	HasValue, HasGet, HasSet, HasWritable, HasEnumerable, HasConfigurable bool
}

// IsAccessor is 8.10.1.
func (d *Desc) IsAccessor() bool { return d != nil && (d.HasGet || d.HasSet) }

// IsData is 8.10.2.
func (d *Desc) IsData() bool { return d != nil && (d.HasValue || d.HasWritable) }

// IsGeneric is 8.10.3.
func (d *Desc) IsGeneric() bool { return d != nil && !d.IsAccessor() && !d.IsData() }

// DataDesc builds a fully populated data descriptor.
func DataDesc(v Value, w, e, c bool) Desc {
	return Desc{Value: v, HasValue: true, Writable: w, HasWritable: true, Enumerable: e, HasEnumerable: true, Configurable: c, HasConfigurable: true}
}

// Obj is an ECMAScript object (8.6.2): internal properties plus the ordered
// table of named properties (creation order is kept because the C07 property
// statement fixes enumeration order as insertion order).
type Obj struct {
	Class      string
	Proto      *Obj
	Extensible bool
	props      map[string]*Desc
	order      []string

	// Label identifies the object in canonical renderings (identity).
	Label string

	IsArray     bool              // 15.4.5.1 [[DefineOwnProperty]]
	IsString    bool              // 15.5.5.2 [[GetOwnProperty]]
	Prim        Value             // [[PrimitiveValue]]
	IsArguments bool              // 10.6 internal methods
	ParamMap    map[string]*Value // [[ParameterMap]]: mapped index name -> formal parameter binding
	Call        func(r *Realm, this Value, args []Value) Value
}

// Quirks are defect-injection switches. They are all false in the reference
// model; the checks switch one on to build the ALTERNATIVE model of a known
// finding (the exact failure mode of the implementation), never as an oracle.
type Quirks struct {
	// ArgumentsKeepMapping: the arguments object never drops a parameter
	// mapping in [[DefineOwnProperty]] (10.6 steps 5.a and 5.b.ii are skipped),
	// the property table holds a placeholder (undefined) for mapped indices,
	// [[GetOwnProperty]] of a mapped index shows a data property carrying the
	// parameter's value even when the stored property is an accessor, and
	// [[DefineOwnProperty]] validates against the stored (raw) property.
	ArgumentsKeepMapping bool
	// PropertyMapLateFilter: defineProperties/create do not fix the list of own
	// enumerable names of the property map before reading the descriptors
	// (15.2.3.7 step 3): a name is tested for "still there and enumerable" when its turn comes.
	PropertyMapLateFilter bool
	// DescriptorValueLast: ToPropertyDescriptor reads the fields in the order
	// enumerable, configurable, writable, get, set, value (8.10.5 has value third),
	// and with a get/set field present it throws before [[Get]] of "value".
	DescriptorValueLast bool
	// ReturnRawThis: reverse and sort return the this value as passed instead of ToObject(this).
	ReturnRawThis bool
	// LengthConvertedOnce: the array [[DefineOwnProperty]] converts the new length once
	// (15.4.5.1 steps 3.c and 3.d are ToUint32(Desc.[[Value]]) and ToNumber(Desc.[[Value]])).
	LengthConvertedOnce bool
	// ReverseDeleteFirst: reverse, "lower is a hole, upper exists": the upper
	// element is deleted before the lower one is written (15.4.4.8 step 6.i is Put, then Delete).
	ReverseDeleteFirst bool
	// JoinSeparatorFirst: join converts the separator before it reads "length".
	JoinSeparatorFirst bool
	// LastIndexOfConvertsOnEmpty: lastIndexOf converts fromIndex although the length is 0.
	LastIndexOfConvertsOnEmpty bool
	// CallableBeforeLength: every/some/forEach/map/filter/reduce/reduceRight test
	// IsCallable(callbackfn) before they read "length".
	CallableBeforeLength bool
	// ResultHolesUndefined: concat, slice, splice (returned array) and map
	// create an own property with value undefined where the source has a hole.
	ResultHolesUndefined bool
	// SpliceNoArgsDeletesAll: splice() with no argument deletes from 0 to the end.
	SpliceNoArgsDeletesAll bool
	// ReduceOnlyHolesUndefined: reduce/reduceRight without initial value over a
	// non-empty receiver that has no present element return undefined instead of throwing.
	ReduceOnlyHolesUndefined bool
	// ReduceRightStringIndex: reduceRight passes the index to the callback as a String.
	ReduceRightStringIndex bool
	// LastIndexOfClamp: lastIndexOf has no early exit for length 0 and clamps
	// fromIndex with "n > len" instead of min(n, len-1).
	LastIndexOfClamp bool
	// ArrayIndexParseInt: the array [[DefineOwnProperty]] recognises indices with
	// strconv.ParseInt (optional sign, leading zeros): "01", "+1", "-0" alias "1", "1", "0".
	ArrayIndexParseInt bool
	// ArrayLengthSameValueRejects: defining "length" with its current value on
	// an array whose length is not writable is rejected (newLen > oldLen instead of >=).
	ArrayLengthSameValueRejects bool
}

// Realm holds the intrinsics the model needs and the side-effect log written
// by test getters/setters/callbacks.
type Realm struct {
	Quirk                                                                                                  Quirks
	ObjectPrototype, FunctionPrototype, ArrayPrototype, StringPrototype, NumberPrototype, BooleanPrototype *Obj
	Log                                                                                                    []string
}

// NewObject is "a new object as if by new Object()" (15.2.2.1).
func (r *Realm) NewObject() *Obj {
	return &Obj{Class: "Object", Proto: r.ObjectPrototype, Extensible: true, props: map[string]*Desc{}}
}

// NewFunction creates a built-in style function object (no own properties
// besides what the caller adds).
func (r *Realm) NewFunction(label string, call func(r *Realm, this Value, args []Value) Value) *Obj {
	o := r.NewObject()
	o.Class = "Function"
	o.Proto = r.FunctionPrototype
	o.Call = call
	o.Label = label
	return o
}

// NewScriptFunction creates a function object as by 13.2: own "length"
// {W:false,E:false,C:false} and "prototype" {W:true,E:false,C:false} whose
// value has "constructor" {W:true,E:false,C:true}.
func (r *Realm) NewScriptFunction(label string, nformals int, call func(r *Realm, this Value, args []Value) Value) *Obj {
	f := r.NewFunction(label, call)
	f.define("length", DataDesc(Num(float64(nformals)), false, false, false))
	proto := r.NewObject()
	proto.define("constructor", DataDesc(ObjV(f), true, false, true))
	f.define("prototype", DataDesc(ObjV(proto), true, false, false))
	return f
}

// NewStringObject is 15.5.2.1 / 15.5.5.
func (r *Realm) NewStringObject(s string) *Obj {
	o := r.NewObject()
	o.Class = "String"
	o.Proto = r.StringPrototype
	o.IsString = true
	o.Prim = Str(s)
	o.define("length", DataDesc(Num(float64(len(s))), false, false, false))
	return o
}

// NewArguments is 10.6 for a non-strict function: args are the actual
// arguments, formals[i] (i < len(formals)) points to the binding of the i-th
// formal parameter (nil = not mapped, e.g. a duplicated name).
func (r *Realm) NewArguments(args []Value, formals []*Value, callee *Obj) *Obj {
	o := r.NewObject()
	o.Class = "Arguments"
	o.IsArguments = true
	o.ParamMap = map[string]*Value{}
	o.define("length", DataDesc(Num(float64(len(args))), true, false, true))
	for i, a := range args {
		if r.Quirk.ArgumentsKeepMapping && i < len(formals) && formals[i] != nil {
			a = Undef
		}
		o.define(NumberToString(float64(i)), DataDesc(a, true, true, true))
	}
	for i, b := range formals {
		if i < len(args) && b != nil {
			o.ParamMap[NumberToString(float64(i))] = b
		}
	}
	o.define("callee", DataDesc(ObjV(callee), true, false, true))
	return o
}

// define writes a property slot directly (creation order kept).
func (o *Obj) define(p string, d Desc) {
	if _, ok := o.props[p]; !ok {
		o.order = append(o.order, p)
	}
	c := d
	o.props[p] = &c
}

func (o *Obj) remove(p string) {
	if _, ok := o.props[p]; !ok {
		return
	}
	delete(o.props, p)
	for i, n := range o.order {
		if n == p {
			o.order = append(o.order[:i:i], o.order[i+1:]...)
			break
		}
	}
}

// OwnNames lists the own property names in creation order; for String objects
// the implicit index properties come first (15.2.3.4 note).
func (o *Obj) OwnNames() []string {
	var out []string
	if o.IsString {
		for i := range o.Prim.S {
			out = append(out, NumberToString(float64(i)))
		}
	}
	return append(out, o.order...)
}

// ---- 8.12 ----

// ordinaryGetOwnProperty is 8.12.1.
func (o *Obj) ordinaryGetOwnProperty(p string) *Desc {
	x, ok := o.props[p]
	if !ok {
		return nil // 1
	}
	d := *x // 2-8: a fresh descriptor with all fields of the property
	return &d
}

// GetOwnProperty is 8.12.1 with the 15.5.5.2 and 10.6 overrides.
func (r *Realm) GetOwnProperty(o *Obj, p string) *Desc {
	switch {
	case o.IsString:
		// 15.5.5.2
		d := o.ordinaryGetOwnProperty(p) // 1
		if d != nil {
			return d // 2
		}
		// 3: ToString(abs(ToInteger(P))) must be P
		n := r.ToInteger(Str(p))
		if math.IsInf(n, 0) || NumberToStringSafe(math.Abs(n)) != p {
			return nil
		}
		str := o.Prim.S                              // 4
		index := n                                   // 5
		if float64(len(str)) <= index || index < 0 { // 6-7
			return nil
		}
		res := DataDesc(Str(str[int(index):int(index)+1]), false, true, false) // 8-9
		return &res
	case o.IsArguments:
		// 10.6 [[GetOwnProperty]]
		d := o.ordinaryGetOwnProperty(p) // 1
		if d == nil {
			return nil // 2
		}
		if b, mapped := o.ParamMap[p]; mapped { // 3-5
			if r.Quirk.ArgumentsKeepMapping && d.IsAccessor() {
				x := DataDesc(*b, false, d.Enumerable, d.Configurable)
				return &x
			}
			d.Value = *b
		}
		return d
	}
	return o.ordinaryGetOwnProperty(p)
}

// NumberToStringSafe is NumberToString that never panics (huge values render
// in a form no property name in the alphabets can equal).
func NumberToStringSafe(n float64) string {
	if a := math.Abs(n); !(math.IsNaN(n) || math.IsInf(n, 0) || n == 0) && (a >= 1e21 || a < 1e-6) {
		return "#exp"
	}
	return NumberToString(n)
}

// GetProperty is 8.12.2.
func (r *Realm) GetProperty(o *Obj, p string) *Desc {
	prop := r.GetOwnProperty(o, p) // 1
	if prop != nil {
		return prop // 2
	}
	proto := o.Proto // 3
	if proto == nil {
		return nil // 4
	}
	return r.GetProperty(proto, p) // 5
}

// Get is 8.12.3 with the 10.6 override. The receiver of a getter call is o.
func (r *Realm) Get(o *Obj, p string) Value { return r.GetWithReceiver(o, p, ObjV(o)) }

// GetWithReceiver is 8.12.3 where the this value handed to a getter is given
// explicitly (8.7.1: property access on a primitive base uses the primitive as this).
func (r *Realm) GetWithReceiver(o *Obj, p string, this Value) Value {
	if o.IsArguments {
		if b, mapped := o.ParamMap[p]; mapped { // 10.6 [[Get]] 2-3
			return *b
		}
	}
	desc := r.GetProperty(o, p) // 1
	if desc == nil {
		return Undef // 2
	}
	if desc.IsData() {
		return desc.Value // 3
	}
	getter := desc.Get // 4
	if getter.K == Undefined {
		return Undef // 5
	}
	return getter.O.Call(r, this, nil) // 6
}

// CanPut is 8.12.4.
func (r *Realm) CanPut(o *Obj, p string) bool {
	desc := r.GetOwnProperty(o, p) // 1
	if desc != nil {               // 2
		if desc.IsAccessor() { // a
			return desc.Set.K != Undefined
		}
		return desc.Writable // b
	}
	proto := o.Proto // 3
	if proto == nil {
		return o.Extensible // 4
	}
	inherited := r.GetProperty(proto, p) // 5
	if inherited == nil {
		return o.Extensible // 6
	}
	if inherited.IsAccessor() { // 7
		return inherited.Set.K != Undefined
	}
	// 8
	if !o.Extensible {
		return false
	}
	return inherited.Writable
}

// Put is 8.12.5.
func (r *Realm) Put(o *Obj, p string, v Value, throw bool) {
	if !r.CanPut(o, p) { // 1
		if throw {
			throwType()
		}
		return
	}
	ownDesc := r.GetOwnProperty(o, p) // 2
	if ownDesc.IsData() {             // 3
		valueDesc := Desc{Value: v, HasValue: true}
		r.DefineOwnProperty(o, p, valueDesc, throw)
		return
	}
	desc := r.GetProperty(o, p) // 4
	if desc.IsAccessor() {      // 5
		setter := desc.Set
		setter.O.Call(r, ObjV(o), []Value{v})
		return
	}
	newDesc := DataDesc(v, true, true, true) // 6
	r.DefineOwnProperty(o, p, newDesc, throw)
}

// HasProperty is 8.12.6.
func (r *Realm) HasProperty(o *Obj, p string) bool { return r.GetProperty(o, p) != nil }

// ordinaryDelete is 8.12.7.
func (r *Realm) ordinaryDelete(o *Obj, p string, throw bool) bool {
	desc := r.GetOwnProperty(o, p) // 1
	if desc == nil {
		return true // 2
	}
	if desc.Configurable { // 3
		o.remove(p)
		return true
	}
	if throw { // 4
		throwType()
	}
	return false // 5
}

// Delete is 8.12.7 with the 10.6 override.
func (r *Realm) Delete(o *Obj, p string, throw bool) bool {
	if o.IsArguments {
		_, isMapped := o.ParamMap[p]            // 1-2
		result := r.ordinaryDelete(o, p, throw) // 3
		if result && isMapped {                 // 4
			delete(o.ParamMap, p)
		}
		return result
	}
	return r.ordinaryDelete(o, p, throw)
}

// ordinaryDefineOwnProperty is 8.12.9.
func (r *Realm) ordinaryDefineOwnProperty(o *Obj, p string, desc Desc, throw bool) bool {
	reject := func() bool {
		if throw {
			throwType()
		}
		return false
	}
	current := r.GetOwnProperty(o, p) // 1
	if r.Quirk.ArgumentsKeepMapping && o.IsArguments {
		current = o.ordinaryGetOwnProperty(p)
	}
	extensible := o.Extensible         // 2
	if current == nil && !extensible { // 3
		return reject()
	}
	if current == nil && extensible { // 4
		if desc.IsGeneric() || desc.IsData() { // a
			o.define(p, DataDesc(desc.Value, desc.Writable, desc.Enumerable, desc.Configurable))
		} else { // b
			o.define(p, Desc{Get: desc.Get, HasGet: true, Set: desc.Set, HasSet: true,
				Enumerable: desc.Enumerable, HasEnumerable: true, Configurable: desc.Configurable, HasConfigurable: true})
		}
		return true
	}
	// 5
	if !desc.HasValue && !desc.HasGet && !desc.HasSet && !desc.HasWritable && !desc.HasEnumerable && !desc.HasConfigurable {
		return true
	}
	// 6: every field of Desc occurs in current with the same value
	same := true
	if desc.HasValue && !(current.HasValue && SameValue(desc.Value, current.Value)) {
		same = false
	}
	if desc.HasGet && !(current.HasGet && SameValue(desc.Get, current.Get)) {
		same = false
	}
	if desc.HasSet && !(current.HasSet && SameValue(desc.Set, current.Set)) {
		same = false
	}
	if desc.HasWritable && !(current.HasWritable && desc.Writable == current.Writable) {
		same = false
	}
	if desc.HasEnumerable && desc.Enumerable != current.Enumerable {
		same = false
	}
	if desc.HasConfigurable && desc.Configurable != current.Configurable {
		same = false
	}
	if same {
		return true
	}
	if !current.Configurable { // 7
		if desc.HasConfigurable && desc.Configurable { // a
			return reject()
		}
		if desc.HasEnumerable && desc.Enumerable != current.Enumerable { // b
			return reject()
		}
	}
	slot := o.props[p]
	implicit := slot == nil // String index property: never configurable, handled by the rejections
	switch {
	case desc.IsGeneric(): // 8
	case current.IsData() != desc.IsData(): // 9
		if !current.Configurable { // a
			return reject()
		}
		if current.IsData() { // b: data -> accessor, keep Configurable/Enumerable, rest default
			*slot = Desc{HasGet: true, HasSet: true, Enumerable: current.Enumerable, HasEnumerable: true,
				Configurable: current.Configurable, HasConfigurable: true}
		} else { // c: accessor -> data
			*slot = Desc{HasValue: true, HasWritable: true, Enumerable: current.Enumerable, HasEnumerable: true,
				Configurable: current.Configurable, HasConfigurable: true}
		}
	case current.IsData() && desc.IsData(): // 10
		if !current.Configurable { // a
			if !current.Writable && desc.HasWritable && desc.Writable { // i
				return reject()
			}
			if !current.Writable { // ii
				if desc.HasValue && !SameValue(desc.Value, current.Value) {
					return reject()
				}
			}
		}
	default: // 11: both accessor
		if !current.Configurable { // a
			if desc.HasSet && !SameValue(desc.Set, current.Set) { // i
				return reject()
			}
			if desc.HasGet && !SameValue(desc.Get, current.Get) { // ii
				return reject()
			}
		}
	}
	if implicit {
		// Only reachable for a String index property when every present field
		// equals the current one except through paths rejected above; nothing to store.
		return true
	}
	// 12
	if desc.HasValue {
		slot.Value = desc.Value
	}
	if desc.HasGet {
		slot.Get = desc.Get
	}
	if desc.HasSet {
		slot.Set = desc.Set
	}
	if desc.HasWritable {
		slot.Writable = desc.Writable
	}
	if desc.HasEnumerable {
		slot.Enumerable = desc.Enumerable
	}
	if desc.HasConfigurable {
		slot.Configurable = desc.Configurable
	}
	return true // 13
}

// DefineOwnProperty is 8.12.9 with the 15.4.5.1 and 10.6 overrides.
func (r *Realm) DefineOwnProperty(o *Obj, p string, desc Desc, throw bool) bool {
	switch {
	case o.IsArray:
		return r.arrayDefineOwnProperty(o, p, desc, throw)
	case o.IsArguments:
		// 10.6 [[DefineOwnProperty]]
		b, isMapped := o.ParamMap[p]                              // 1-2
		allowed := r.ordinaryDefineOwnProperty(o, p, desc, false) // 3
		if !allowed {                                             // 4
			if throw {
				throwType()
			}
			return false
		}
		if isMapped { // 5
			if desc.IsAccessor() { // a
				if !r.Quirk.ArgumentsKeepMapping {
					delete(o.ParamMap, p)
				}
			} else { // b
				if desc.HasValue { // i
					*b = desc.Value
				}
				if desc.HasWritable && !desc.Writable && !r.Quirk.ArgumentsKeepMapping { // ii
					delete(o.ParamMap, p)
				}
			}
		}
		return true // 6
	}
	return r.ordinaryDefineOwnProperty(o, p, desc, throw)
}

// arrayDefineOwnProperty is 15.4.5.1.
func (r *Realm) arrayDefineOwnProperty(a *Obj, p string, desc Desc, throw bool) bool {
	reject := func() bool {
		if throw {
			throwType()
		}
		return false
	}
	oldLenDesc := r.GetOwnProperty(a, "length") // 1
	oldLen := uint32(oldLenDesc.Value.N)        // 2
	if p == "length" {                          // 3
		if !desc.HasValue { // a
			return r.ordinaryDefineOwnProperty(a, "length", desc, throw)
		}
		newLenDesc := desc // b
		var newLen uint32
		if r.Quirk.LengthConvertedOnce {
			n := r.ToNumber(desc.Value)
			newLen = NumberToUint32(n)
			if float64(newLen) != n {
				throwRange()
			}
		} else {
			newLen = r.ToUint32(desc.Value)                // c
			if float64(newLen) != r.ToNumber(desc.Value) { // d
				throwRange()
			}
		}
		newLenDesc.Value = Num(float64(newLen))                                             // e
		if newLen >= oldLen && !(r.Quirk.ArrayLengthSameValueRejects && newLen == oldLen) { // f
			return r.ordinaryDefineOwnProperty(a, "length", newLenDesc, throw)
		}
		if !oldLenDesc.Writable { // g
			return reject()
		}
		newWritable := true                                 // h
		if newLenDesc.HasWritable && !newLenDesc.Writable { // i
			newWritable = false
			newLenDesc.Writable = true
		}
		succeeded := r.ordinaryDefineOwnProperty(a, "length", newLenDesc, throw) // j
		if !succeeded {                                                          // k
			return false
		}
		for newLen < oldLen { // l
			oldLen--
			deleteSucceeded := r.Delete(a, NumberToString(float64(oldLen)), false)
			if !deleteSucceeded {
				newLenDesc.Value = Num(float64(oldLen + 1))
				if !newWritable {
					newLenDesc.Writable = false
				}
				r.ordinaryDefineOwnProperty(a, "length", newLenDesc, false)
				return reject()
			}
		}
		if !newWritable { // m
			r.ordinaryDefineOwnProperty(a, "length", Desc{Writable: false, HasWritable: true}, false)
		}
		return true // n
	}
	if r.Quirk.ArrayIndexParseInt {
		if _, canonical := IsArrayIndex(p); !canonical {
			if index, ok := parseIntIndex(p); ok {
				// the descriptor goes to the canonical name; when that is an existing
				// index it is then also applied to P itself
				if index >= oldLen && !oldLenDesc.Writable {
					return reject()
				}
				if !r.ordinaryDefineOwnProperty(a, NumberToString(float64(index)), desc, false) {
					return reject()
				}
				if index >= oldLen {
					oldLenDesc.Value = Num(float64(index) + 1)
					r.ordinaryDefineOwnProperty(a, "length", *oldLenDesc, false)
					return true
				}
				return r.ordinaryDefineOwnProperty(a, p, desc, throw)
			}
		}
	}
	if index, ok := IsArrayIndex(p); ok { // 4
		if index >= oldLen && !oldLenDesc.Writable { // b
			return reject()
		}
		succeeded := r.ordinaryDefineOwnProperty(a, p, desc, false) // c
		if !succeeded {                                             // d
			return reject()
		}
		if index >= oldLen { // e
			oldLenDesc.Value = Num(float64(index) + 1)
			r.ordinaryDefineOwnProperty(a, "length", *oldLenDesc, false)
		}
		return true // f
	}
	return r.ordinaryDefineOwnProperty(a, p, desc, throw) // 5
}

// parseIntIndex is the index test of Quirks.ArrayIndexParseInt: what
// strconv.ParseInt(p, 10, 64) accepts, restricted to 0 <= n < 2^32-1.
func parseIntIndex(p string) (uint32, bool) {
	s := p
	if s != "" && (s[0] == '+' || s[0] == '-') {
		s = s[1:]
	}
	if s == "" || len(s) > 18 {
		return 0, false
	}
	var n uint64
	for i := 0; i < len(s); i++ {
		if s[i] < '0' || s[i] > '9' {
			return 0, false
		}
		n = n*10 + uint64(s[i]-'0')
	}
	if p[0] == '-' && n != 0 {
		return 0, false
	}
	if n >= 4294967295 {
		return 0, false
	}
	return uint32(n), true
}
