// Package objmodel is a deliberately boring Go transcription of the ES5.1 object
// model: property descriptors (8.10), the internal methods of 8.12, the Object
// constructor functions of 15.2.3, the exotic [[DefineOwnProperty]] of arrays
// (15.4.5.1), String objects (15.5.5.2) and arguments objects (10.6), and the
// Array constructor and prototype methods of 15.4. It is the oracle of the C07
// and C08 checks. Clause and step numbers are given in comments.
//
// Abrupt completions (throw) are Go panics carrying *Throw; Try converts them
// back. Nothing here imports otto.
package objmodel

import (
	"math"
	"strconv"
	"strings"
)

// Kind is the ES5 type of a value (8.1-8.6).
type Kind uint8

const (
	Undefined Kind = iota
	Null
	Bool
	Number
	String
	Object
)

// Value is an ECMAScript language value. Strings are Go strings restricted to
// ASCII by the callers (one byte = one code unit).
type Value struct {
	K Kind
	B bool
	N float64
	S string
	O *Obj
}

var (
	Undef   = Value{}
	NullV   = Value{K: Null}
	TrueV   = Value{K: Bool, B: true}
	FalseV  = Value{K: Bool, B: false}
	NaNV    = Value{K: Number, N: math.NaN()}
	ZeroV   = Value{K: Number, N: 0}
	EmptyS  = Value{K: String}
	negZero = math.Copysign(0, -1)
)

func Num(f float64) Value { return Value{K: Number, N: f} }
func Str(s string) Value  { return Value{K: String, S: s} }
func Boolean(b bool) Value {
	if b {
		return TrueV
	}
	return FalseV
}
func ObjV(o *Obj) Value {
	if o == nil {
		return NullV
	}
	return Value{K: Object, O: o}
}

// Throw is an abrupt completion of type throw. Class is the error constructor
// name for native errors ("TypeError", "RangeError"); for values thrown by test
// callbacks Class is "Thrown" and Val holds the value.
type Throw struct {
	Class string
	Val   Value
}

func (t *Throw) Error() string { return t.Class }

func throwType()  { panic(&Throw{Class: "TypeError"}) }
func throwRange() { panic(&Throw{Class: "RangeError"}) }

// ThrowValue throws an arbitrary value (used by scripted callbacks).
func ThrowValue(v Value) { panic(&Throw{Class: "Thrown", Val: v}) }

// ThrowError throws a native error of the given class ("RangeError", ...).
func ThrowError(class string) { panic(&Throw{Class: class}) }

// Try runs f and returns the throw completion it ended with, or nil.
func Try(f func()) (t *Throw) {
	defer func() {
		if p := recover(); p != nil {
			if th, ok := p.(*Throw); ok {
				t = th
				return
			}
			panic(p)
		}
	}()
	f()
	return nil
}

// SameValue is 9.12.
func SameValue(x, y Value) bool {
	if x.K != y.K {
		return false
	}
	switch x.K {
	case Undefined, Null:
		return true
	case Number:
		if math.IsNaN(x.N) && math.IsNaN(y.N) {
			return true
		}
		if x.N == 0 && y.N == 0 {
			return math.Signbit(x.N) == math.Signbit(y.N)
		}
		return x.N == y.N
	case String:
		return x.S == y.S
	case Bool:
		return x.B == y.B
	}
	return x.O == y.O
}

// StrictEquals is 11.9.6.
func StrictEquals(x, y Value) bool {
	if x.K != y.K {
		return false
	}
	switch x.K {
	case Undefined, Null:
		return true
	case Number:
		return x.N == y.N // NaN != NaN, +0 == -0
	case String:
		return x.S == y.S
	case Bool:
		return x.B == y.B
	}
	return x.O == y.O
}

// IsCallable is 9.11.
func IsCallable(v Value) bool { return v.K == Object && v.O.Call != nil }

// ToBoolean is 9.2.
func ToBoolean(v Value) bool {
	switch v.K {
	case Undefined, Null:
		return false
	case Bool:
		return v.B
	case Number:
		return !(v.N == 0 || math.IsNaN(v.N))
	case String:
		return v.S != ""
	}
	return true
}

// ToPrimitive is 9.1 (hint: "" | "String" | "Number").
func (r *Realm) ToPrimitive(v Value, hint string) Value {
	if v.K != Object {
		return v
	}
	return r.DefaultValue(v.O, hint)
}

// DefaultValue is 8.12.8.
func (r *Realm) DefaultValue(o *Obj, hint string) Value {
	order := []string{"valueOf", "toString"}
	if hint == "String" {
		order = []string{"toString", "valueOf"}
	}
	for _, name := range order {
		f := r.Get(o, name)
		if IsCallable(f) {
			v := f.O.Call(r, ObjV(o), nil)
			if v.K != Object {
				return v
			}
		}
	}
	throwType()
	return Undef
}

// ToNumber is 9.3.
func (r *Realm) ToNumber(v Value) float64 {
	switch v.K {
	case Undefined:
		return math.NaN()
	case Null:
		return 0
	case Bool:
		if v.B {
			return 1
		}
		return 0
	case Number:
		return v.N
	case String:
		return StringToNumber(v.S)
	}
	return r.ToNumber(r.ToPrimitive(v, "Number"))
}

// StringToNumber is 9.3.1 for ASCII strings.
func StringToNumber(s string) float64 {
	s = strings.Trim(s, " \t\n\r\v\f")
	if s == "" {
		return 0
	}
	if len(s) > 2 && s[0] == '0' && (s[1] == 'x' || s[1] == 'X') {
		u, err := strconv.ParseUint(s[2:], 16, 64)
		if err != nil {
			return math.NaN()
		}
		return float64(u)
	}
	t := s
	sign := 1.0
	if t[0] == '+' || t[0] == '-' {
		if t[0] == '-' {
			sign = -1
		}
		t = t[1:]
	}
	if t == "Infinity" {
		return sign * math.Inf(1)
	}
	// StrDecimalLiteral: digits [. digits] [e[+-]digits] | . digits [exp]
	i, nd := 0, 0
	for i < len(t) && t[i] >= '0' && t[i] <= '9' {
		i++
		nd++
	}
	if i < len(t) && t[i] == '.' {
		i++
		for i < len(t) && t[i] >= '0' && t[i] <= '9' {
			i++
			nd++
		}
	}
	if nd == 0 {
		return math.NaN()
	}
	if i < len(t) && (t[i] == 'e' || t[i] == 'E') {
		i++
		if i < len(t) && (t[i] == '+' || t[i] == '-') {
			i++
		}
		ne := 0
		for i < len(t) && t[i] >= '0' && t[i] <= '9' {
			i++
			ne++
		}
		if ne == 0 {
			return math.NaN()
		}
	}
	if i != len(t) {
		return math.NaN()
	}
	f, err := strconv.ParseFloat(t, 64)
	if err != nil && !math.IsInf(f, 0) {
		return math.NaN()
	}
	return sign * f
}

// ToInteger is 9.4.
func (r *Realm) ToInteger(v Value) float64 {
	n := r.ToNumber(v)
	if math.IsNaN(n) {
		return 0
	}
	if n == 0 || math.IsInf(n, 0) {
		return n
	}
	return math.Trunc(n)
}

// ToUint32 is 9.6.
func (r *Realm) ToUint32(v Value) uint32 { return NumberToUint32(r.ToNumber(v)) }

// NumberToUint32 is 9.6 steps 2-5.
func NumberToUint32(n float64) uint32 {
	if math.IsNaN(n) || math.IsInf(n, 0) || n == 0 {
		return 0
	}
	p := math.Trunc(n)
	m := math.Mod(p, 4294967296)
	if m < 0 {
		m += 4294967296
	}
	return uint32(m)
}

// NumberToString is 9.8.1 for the numbers the checks use: every integer below
// 1e21 and every non-integer whose shortest round-trip form lies in
// [1e-6, 1e21) (positional notation).
func NumberToString(n float64) string {
	switch {
	case math.IsNaN(n):
		return "NaN"
	case n == 0:
		return "0"
	case math.IsInf(n, 1):
		return "Infinity"
	case math.IsInf(n, -1):
		return "-Infinity"
	}
	if a := math.Abs(n); a >= 1e21 || a < 1e-6 {
		panic("objmodel: NumberToString outside the modelled range")
	}
	return strconv.FormatFloat(n, 'f', -1, 64)
}

// ToString is 9.8.
func (r *Realm) ToString(v Value) string {
	switch v.K {
	case Undefined:
		return "undefined"
	case Null:
		return "null"
	case Bool:
		if v.B {
			return "true"
		}
		return "false"
	case Number:
		return NumberToString(v.N)
	case String:
		return v.S
	}
	return r.ToString(r.ToPrimitive(v, "String"))
}

// ToObject is 9.9.
func (r *Realm) ToObject(v Value) *Obj {
	switch v.K {
	case Undefined, Null:
		throwType()
	case Bool:
		o := r.NewObject()
		o.Class = "Boolean"
		o.Proto = r.BooleanPrototype
		o.Prim = v
		return o
	case Number:
		o := r.NewObject()
		o.Class = "Number"
		o.Proto = r.NumberPrototype
		o.Prim = v
		return o
	case String:
		return r.NewStringObject(v.S)
	}
	return v.O
}

// IsArrayIndex reports whether P is an array index (15.4): ToString(ToUint32(P))
// equals P and ToUint32(P) is not 2^32-1.
func IsArrayIndex(p string) (uint32, bool) {
	if p == "" || len(p) > 10 {
		return 0, false
	}
	if p[0] == '0' && len(p) > 1 {
		return 0, false
	}
	var n uint64
	for i := 0; i < len(p); i++ {
		if p[i] < '0' || p[i] > '9' {
			return 0, false
		}
		n = n*10 + uint64(p[i]-'0')
	}
	if n >= 4294967295 {
		return 0, false
	}
	return uint32(n), true
}
