package objmodel

import (
	"math"
	"sort"
	"strings"
)

// Render is the canonical string of a value (the JS preludes of the checks
// produce the same strings from the real implementation):
//
//	u | n | b:0 | b:1 | d:<number, -0 distinct> | s:<string> | o:<label> | {<dump>}
func (r *Realm) Render(v Value) string { return r.render(v, 0) }

func (r *Realm) render(v Value, depth int) string {
	switch v.K {
	case Undefined:
		return "u"
	case Null:
		return "n"
	case Bool:
		if v.B {
			return "b:1"
		}
		return "b:0"
	case Number:
		if v.N == 0 && math.Signbit(v.N) {
			return "d:-0"
		}
		return "d:" + NumberToStringSafe(v.N)
	case String:
		return "s:" + v.S
	case Object:
		if v.O.Label != "" {
			return "o:" + v.O.Label
		}
		if depth > 2 {
			return "o:?"
		}
		return "{" + r.dump(v.O, depth+1) + "}"
	}
	return "hole"
}

// Attrs renders the attribute bits of a stored property: data "WEC", accessor "aEC".
func Attrs(d *Desc) string {
	b := func(x bool) string {
		if x {
			return "1"
		}
		return "0"
	}
	if d.IsAccessor() {
		return "a" + b(d.Enumerable) + b(d.Configurable)
	}
	return b(d.Writable) + b(d.Enumerable) + b(d.Configurable)
}

// SortNames orders property names for order-insensitive dumps: array indices
// ascending, then the other names in code-unit order.
func SortNames(names []string) []string {
	out := append([]string(nil), names...)
	sort.SliceStable(out, func(i, j int) bool {
		a, aok := IsArrayIndex(out[i])
		b, bok := IsArrayIndex(out[j])
		switch {
		case aok && bok:
			return a < b
		case aok != bok:
			return aok
		}
		return out[i] < out[j]
	})
	return out
}

// PropString renders one own property: name=<value>:WEC or name=get(..)set(..):aEC.
func (r *Realm) PropString(o *Obj, p string) string { return r.propString(o, p, 0) }

func (r *Realm) propString(o *Obj, p string, depth int) string {
	d := r.GetOwnProperty(o, p)
	if d == nil {
		return p + "=absent"
	}
	if d.IsAccessor() {
		return p + "=get(" + r.render(d.Get, depth) + ")set(" + r.render(d.Set, depth) + "):" + Attrs(d)
	}
	return p + "=" + r.render(d.Value, depth) + ":" + Attrs(d)
}

// Dump renders an object order-insensitively: class, extensible flag and every
// own property (SortNames order).
func (r *Realm) Dump(o *Obj) string { return r.dump(o, 0) }

func (r *Realm) dump(o *Obj, depth int) string {
	var sb strings.Builder
	sb.WriteString(o.Class)
	if o.Extensible {
		sb.WriteString("|ext=1|")
	} else {
		sb.WriteString("|ext=0|")
	}
	for i, p := range SortNames(o.OwnNames()) {
		if i > 0 {
			sb.WriteByte(',')
		}
		sb.WriteString(r.propString(o, p, depth))
	}
	return sb.String()
}

// DumpOrdered is Dump with the properties in creation order (a model state key).
func (r *Realm) DumpOrdered(o *Obj) string {
	var sb strings.Builder
	sb.WriteString(o.Class)
	if o.Extensible {
		sb.WriteString("|ext=1|")
	} else {
		sb.WriteString("|ext=0|")
	}
	for i, p := range o.OwnNames() {
		if i > 0 {
			sb.WriteByte(',')
		}
		sb.WriteString(r.propString(o, p, 0))
	}
	if o.IsArguments {
		sb.WriteString("|map=")
		for _, p := range SortNames(mapKeys(o.ParamMap)) {
			sb.WriteString(p + ";")
		}
	}
	return sb.String()
}

func mapKeys(m map[string]*Value) []string {
	out := make([]string, 0, len(m))
	for k := range m {
		out = append(out, k)
	}
	return out
}

// Set stores a property slot directly (test fixture construction only).
func (o *Obj) Set(p string, d Desc) { o.define(p, d) }
