package objmodel

// FromPropertyDescriptor is 8.10.4.
func (r *Realm) FromPropertyDescriptor(d *Desc) Value {
	if d == nil {
		return Undef // 1
	}
	obj := r.NewObject() // 2
	if d.IsData() {      // 3
		r.DefineOwnProperty(obj, "value", DataDesc(d.Value, true, true, true), false)
		r.DefineOwnProperty(obj, "writable", DataDesc(Boolean(d.Writable), true, true, true), false)
	} else { // 4
		r.DefineOwnProperty(obj, "get", DataDesc(d.Get, true, true, true), false)
		r.DefineOwnProperty(obj, "set", DataDesc(d.Set, true, true, true), false)
	}
	r.DefineOwnProperty(obj, "enumerable", DataDesc(Boolean(d.Enumerable), true, true, true), false)     // 5
	r.DefineOwnProperty(obj, "configurable", DataDesc(Boolean(d.Configurable), true, true, true), false) // 6
	return ObjV(obj)                                                                                     // 7
}

// ToPropertyDescriptor is 8.10.5.
func (r *Realm) ToPropertyDescriptor(v Value) Desc {
	if v.K != Object { // 1
		throwType()
	}
	o := v.O
	var d Desc                          // 2
	if r.HasProperty(o, "enumerable") { // 3
		d.Enumerable, d.HasEnumerable = ToBoolean(r.Get(o, "enumerable")), true
	}
	if r.HasProperty(o, "configurable") { // 4
		d.Configurable, d.HasConfigurable = ToBoolean(r.Get(o, "configurable")), true
	}
	if !r.Quirk.DescriptorValueLast && r.HasProperty(o, "value") { // 5
		d.Value, d.HasValue = r.Get(o, "value"), true
	}
	if r.HasProperty(o, "writable") { // 6
		d.Writable, d.HasWritable = ToBoolean(r.Get(o, "writable")), true
	}
	if r.HasProperty(o, "get") { // 7
		getter := r.Get(o, "get")
		if !IsCallable(getter) && getter.K != Undefined {
			throwType()
		}
		d.Get, d.HasGet = getter, true
	}
	if r.HasProperty(o, "set") { // 8
		setter := r.Get(o, "set")
		if !IsCallable(setter) && setter.K != Undefined {
			throwType()
		}
		d.Set, d.HasSet = setter, true
	}
	if r.Quirk.DescriptorValueLast {
		if (d.HasGet || d.HasSet) && d.HasWritable {
			throwType()
		}
		if r.HasProperty(o, "value") {
			if d.HasGet || d.HasSet {
				throwType()
			}
			d.Value, d.HasValue = r.Get(o, "value"), true
		}
	}
	if d.HasGet || d.HasSet { // 9
		if d.HasValue || d.HasWritable {
			throwType()
		}
	}
	return d // 10
}

func needObject(v Value) *Obj {
	if v.K != Object {
		throwType()
	}
	return v.O
}

// ObjectGetPrototypeOf is 15.2.3.2.
func (r *Realm) ObjectGetPrototypeOf(o Value) Value { return ObjV(needObject(o).Proto) }

// ObjectGetOwnPropertyDescriptor is 15.2.3.3.
func (r *Realm) ObjectGetOwnPropertyDescriptor(o Value, p Value) Value {
	obj := needObject(o)                  // 1
	name := r.ToString(p)                 // 2
	desc := r.GetOwnProperty(obj, name)   // 3
	return r.FromPropertyDescriptor(desc) // 4
}

// ObjectGetOwnPropertyNames is 15.2.3.4 (as a Go list; order = creation order).
func (r *Realm) ObjectGetOwnPropertyNames(o Value) []string { return needObject(o).OwnNames() }

// ObjectCreate is 15.2.3.5.
func (r *Realm) ObjectCreate(proto Value, properties Value) Value {
	if proto.K != Object && proto.K != Null { // 1
		throwType()
	}
	obj := r.NewObject() // 2
	obj.Proto = nil      // 3
	if proto.K == Object {
		obj.Proto = proto.O
	}
	if properties.K != Undefined { // 4
		r.ObjectDefineProperties(ObjV(obj), properties)
	}
	return ObjV(obj) // 5
}

// ObjectDefineProperty is 15.2.3.6.
func (r *Realm) ObjectDefineProperty(o Value, p Value, attributes Value) Value {
	obj := needObject(o)                       // 1
	name := r.ToString(p)                      // 2
	desc := r.ToPropertyDescriptor(attributes) // 3
	r.DefineOwnProperty(obj, name, desc, true) // 4
	return o                                   // 5
}

// ObjectDefineProperties is 15.2.3.7: every descriptor is converted before the
// first property is defined.
func (r *Realm) ObjectDefineProperties(o Value, properties Value) Value {
	obj := needObject(o)            // 1
	props := r.ToObject(properties) // 2
	var names []string              // 3
	for _, n := range props.OwnNames() {
		if d := r.GetOwnProperty(props, n); d != nil && d.Enumerable {
			names = append(names, n)
		}
	}
	type pair struct {
		p string
		d Desc
	}
	var descriptors []pair    // 4
	for _, p := range names { // 5
		if r.Quirk.PropertyMapLateFilter {
			if d := r.GetOwnProperty(props, p); d == nil || !d.Enumerable {
				continue
			}
		}
		descObj := r.Get(props, p)
		desc := r.ToPropertyDescriptor(descObj)
		descriptors = append(descriptors, pair{p, desc})
	}
	for _, pd := range descriptors { // 6
		r.DefineOwnProperty(obj, pd.p, pd.d, true)
	}
	return o // 7
}

// ObjectSeal is 15.2.3.8.
func (r *Realm) ObjectSeal(o Value) Value {
	obj := needObject(o)               // 1
	for _, p := range obj.OwnNames() { // 2
		desc := r.GetOwnProperty(obj, p)
		if desc.Configurable {
			desc.Configurable = false
		}
		r.DefineOwnProperty(obj, p, *desc, true)
	}
	obj.Extensible = false // 3
	return o               // 4
}

// ObjectFreeze is 15.2.3.9.
func (r *Realm) ObjectFreeze(o Value) Value {
	obj := needObject(o)               // 1
	for _, p := range obj.OwnNames() { // 2
		desc := r.GetOwnProperty(obj, p)
		if desc.IsData() {
			if desc.Writable {
				desc.Writable = false
			}
		}
		if desc.Configurable {
			desc.Configurable = false
		}
		r.DefineOwnProperty(obj, p, *desc, true)
	}
	obj.Extensible = false // 3
	return o               // 4
}

// ObjectPreventExtensions is 15.2.3.10.
func (r *Realm) ObjectPreventExtensions(o Value) Value {
	needObject(o).Extensible = false
	return o
}

// ObjectIsSealed is 15.2.3.11.
func (r *Realm) ObjectIsSealed(o Value) bool {
	obj := needObject(o)
	for _, p := range obj.OwnNames() {
		if r.GetOwnProperty(obj, p).Configurable {
			return false
		}
	}
	return !obj.Extensible
}

// ObjectIsFrozen is 15.2.3.12.
func (r *Realm) ObjectIsFrozen(o Value) bool {
	obj := needObject(o)
	for _, p := range obj.OwnNames() {
		desc := r.GetOwnProperty(obj, p)
		if desc.IsData() && desc.Writable {
			return false
		}
		if desc.Configurable {
			return false
		}
	}
	return !obj.Extensible
}

// ObjectIsExtensible is 15.2.3.13.
func (r *Realm) ObjectIsExtensible(o Value) bool { return needObject(o).Extensible }

// ObjectKeys is 15.2.3.14 (as a Go list; order = creation order, the order of for-in).
func (r *Realm) ObjectKeys(o Value) []string {
	obj := needObject(o)
	var out []string
	for _, p := range obj.OwnNames() {
		if r.GetOwnProperty(obj, p).Enumerable {
			out = append(out, p)
		}
	}
	return out
}

// HasOwnProperty is 15.2.4.5.
func (r *Realm) HasOwnProperty(this Value, v Value) bool {
	p := r.ToString(v)
	o := r.ToObject(this)
	return r.GetOwnProperty(o, p) != nil
}

// PropertyIsEnumerable is 15.2.4.7.
func (r *Realm) PropertyIsEnumerable(this Value, v Value) bool {
	p := r.ToString(v)
	o := r.ToObject(this)
	desc := r.GetOwnProperty(o, p)
	if desc == nil {
		return false
	}
	return desc.Enumerable
}

// ForIn is the enumeration of 12.6.4: enumerable properties of the object and
// of its prototypes, own properties first in creation order; a property of a
// prototype is not enumerated when it is shadowed by a property (enumerable or
// not) of an object earlier in the chain. The body is not modelled (no mutation
// during enumeration).
func (r *Realm) ForIn(o *Obj) []string {
	var out []string
	seen := map[string]bool{}
	for x := o; x != nil; x = x.Proto {
		for _, p := range x.OwnNames() {
			if seen[p] {
				continue
			}
			seen[p] = true
			if r.GetOwnProperty(x, p).Enumerable {
				out = append(out, p)
			}
		}
	}
	return out
}
