package json

import (
	"math"
	"math/big"
)

// DefaultValue is [[DefaultValue]](hint) of 8.12.8 for the objects of the model.
// valueOf / toString are looked up with [[Get]] (own, then prototype chain); a
// name that is not found anywhere stands for the built-in method of the class
// (Number/String/Boolean.prototype.valueOf and toString, Object.prototype's for
// everything else).
func DefaultValue(o *Obj, hint string) Value {
	names := []string{"valueOf", "toString"}
	if hint == "String" {
		names = []string{"toString", "valueOf"}
	}
	for _, name := range names {
		f := o.Get(K(name))
		var r Value
		switch {
		case f.IsCallable():
			r = f.O.Call(ObjV(o), nil)
		case f.Kind == Undefined:
			r = builtinConversion(o, name)
		default:
			continue // present but not callable
		}
		if r.Kind != Object {
			return r
		}
	}
	throw("TypeError", "cannot convert object to primitive value")
	return Undef
}

func builtinConversion(o *Obj, name string) Value {
	switch o.Class {
	case "Number", "String", "Boolean":
		if name == "valueOf" {
			return o.Prim
		}
		return Str(ToStringPrim(o.Prim))
	}
	if name == "valueOf" {
		return ObjV(o)
	}
	if o.Class == "Array" {
		// Array.prototype.toString = join: only what the families need
		var out []uint16
		for i := uint32(0); i < o.Len; i++ {
			if i > 0 {
				out = append(out, ',')
			}
			e := o.Get(IndexKey(i))
			if e.Kind != Undefined && e.Kind != Null {
				out = append(out, ToString(e)...)
			}
		}
		return Str(out)
	}
	return StrOf("[object " + o.Class + "]")
}

// ToStringPrim is 9.8 for primitives.
func ToStringPrim(v Value) []uint16 {
	switch v.Kind {
	case Undefined:
		return U("undefined")
	case Null:
		return U("null")
	case Bool:
		if v.B {
			return U("true")
		}
		return U("false")
	case Number:
		return NumberToString(v.N)
	case String:
		return v.S
	}
	panic("ToStringPrim of object")
}

// ToString is 9.8.
func ToString(v Value) []uint16 {
	if v.Kind == Object {
		return ToStringPrim(DefaultValue(v.O, "String"))
	}
	return ToStringPrim(v)
}

// ToNumber is 9.3.
func ToNumber(v Value) float64 {
	if v.Kind == Object {
		v = DefaultValue(v.O, "Number")
	}
	switch v.Kind {
	case Undefined:
		return math.NaN()
	case Null:
		return 0
	case Bool:
		if v.B {
			return 1
		}
		return 0
	case Number:
		return v.N
	}
	return StringToNumber(v.S)
}

func isStrWS(c uint16) bool {
	switch c {
	case 0x09, 0x0A, 0x0B, 0x0C, 0x0D, 0x20, 0xA0, 0x1680, 0x180E, 0x2028, 0x2029, 0x202F, 0x205F, 0x3000, 0xFEFF:
		return true
	}
	return c >= 0x2000 && c <= 0x200A
}

// StringToNumber is 9.3.1 (StringNumericLiteral).
func StringToNumber(s []uint16) float64 {
	for len(s) > 0 && isStrWS(s[0]) {
		s = s[1:]
	}
	for len(s) > 0 && isStrWS(s[len(s)-1]) {
		s = s[:len(s)-1]
	}
	if len(s) == 0 {
		return 0
	}
	if len(s) > 2 && s[0] == '0' && (s[1] == 'x' || s[1] == 'X') {
		v := new(big.Int)
		for _, c := range s[2:] {
			var d int64
			switch {
			case c >= '0' && c <= '9':
				d = int64(c - '0')
			case c >= 'a' && c <= 'f':
				d = int64(c-'a') + 10
			case c >= 'A' && c <= 'F':
				d = int64(c-'A') + 10
			default:
				return math.NaN()
			}
			v.Mul(v, big.NewInt(16)).Add(v, big.NewInt(d))
		}
		f, _ := new(big.Float).SetInt(v).Float64()
		return f
	}
	neg := false
	if s[0] == '+' || s[0] == '-' {
		neg = s[0] == '-'
		s = s[1:]
	}
	sign := func(f float64) float64 {
		if neg {
			return -f
		}
		return f
	}
	if string(Key(s)) == string(K("Infinity")) {
		return sign(math.Inf(1))
	}
	// StrUnsignedDecimalLiteral: digits [. digits] [exp] | . digits [exp]
	i := 0
	var digits []byte
	nInt := 0
	for i < len(s) && s[i] >= '0' && s[i] <= '9' {
		digits = append(digits, byte(s[i]))
		i++
		nInt++
	}
	frac := 0
	if i < len(s) && s[i] == '.' {
		i++
		for i < len(s) && s[i] >= '0' && s[i] <= '9' {
			digits = append(digits, byte(s[i]))
			i++
			frac++
		}
	}
	if nInt+frac == 0 {
		return math.NaN()
	}
	exp := 0
	if i < len(s) && (s[i] == 'e' || s[i] == 'E') {
		i++
		eneg := false
		if i < len(s) && (s[i] == '+' || s[i] == '-') {
			eneg = s[i] == '-'
			i++
		}
		n := 0
		for i < len(s) && s[i] >= '0' && s[i] <= '9' {
			if exp < 100000 {
				exp = exp*10 + int(s[i]-'0')
			}
			i++
			n++
		}
		if n == 0 {
			return math.NaN()
		}
		if eneg {
			exp = -exp
		}
	}
	if i != len(s) {
		return math.NaN()
	}
	return sign(decimalToFloat(digits, exp-frac))
}
