// Package json is the reference model of ES5.1 section 15.12: the JSON grammar
// recogniser/parser (15.12.1), JSON.parse with the reviver walk (15.12.2) and
// JSON.stringify (15.12.3), over a small model of ECMAScript values with
// ordered object keys. It is a direct transcription of the clauses it names and
// shares no code with encoding/json.
//
// Strings are sequences of UTF-16 code units ([]uint16); property names are
// S16 (the same units packed two bytes each so that they can key a map).
package json

import (
	"fmt"
	"math"
	"sort"
	"strconv"
	"strings"
	"unicode/utf16"
)

// S16 is a property name: UTF-16 code units, two bytes each, big endian.
type S16 string

// U converts a Go string to UTF-16 code units.
func U(s string) []uint16 { return utf16.Encode([]rune(s)) }

// Key packs code units into a property name.
func Key(u []uint16) S16 {
	b := make([]byte, 2*len(u))
	for i, c := range u {
		b[2*i] = byte(c >> 8)
		b[2*i+1] = byte(c)
	}
	return S16(b)
}

// K is Key(U(s)).
func K(s string) S16 { return Key(U(s)) }

// Units unpacks a property name.
func (k S16) Units() []uint16 {
	u := make([]uint16, len(k)/2)
	for i := range u {
		u[i] = uint16(k[2*i])<<8 | uint16(k[2*i+1])
	}
	return u
}

// Kind is the ECMAScript type of a model value.
type Kind uint8

// The ECMAScript types (8.1-8.6).
const (
	Undefined Kind = iota
	Null
	Bool
	Number
	String
	Object
)

// Value is an ECMAScript value.
type Value struct {
	Kind Kind
	B    bool
	N    float64
	S    []uint16
	O    *Obj
}

// Constructors.
var (
	Undef = Value{Kind: Undefined}
	Nul   = Value{Kind: Null}
)

// Boolean makes a Boolean value.
func Boolean(b bool) Value { return Value{Kind: Bool, B: b} }

// Num makes a Number value.
func Num(f float64) Value { return Value{Kind: Number, N: f} }

// Str makes a String value from code units.
func Str(u []uint16) Value { return Value{Kind: String, S: u} }

// StrOf makes a String value from a Go string.
func StrOf(s string) Value { return Value{Kind: String, S: U(s)} }

// ObjV wraps an object.
func ObjV(o *Obj) Value { return Value{Kind: Object, O: o} }

// Prop is an own data property.
type Prop struct {
	V    Value
	Enum bool
	// Locked: [[Writable]] and [[Configurable]] are false. [[DefineOwnProperty]]
	// with {value, true, true, true} and [[Delete]] are then rejected (8.12.9 step
	// 7.a / 8.12.7 step 4) — silently, since 15.12.2 calls them with Throw false.
	Locked bool
}

// Obj is an ECMAScript object: [[Class]], [[Prototype]], own data properties in
// insertion order, [[PrimitiveValue]] for wrappers, [[Call]] for functions.
type Obj struct {
	Class string // Object Array Function Number String Boolean
	Proto *Obj
	Keys  []S16
	Props map[S16]*Prop
	Len   uint32 // arrays: the length property
	Prim  Value
	Call  func(this Value, args []Value) Value
	// AliasDelete makes Delete remove the key from Keys in place (shifting the
	// shared backing array) — only used by alternative models of the
	// implementation, never by the specification algorithms.
	AliasDelete bool
}

// NewObject is `new Object()`.
func NewObject() *Obj { return &Obj{Class: "Object", Props: map[S16]*Prop{}} }

// NewArray is `new Array()` followed by element definitions.
func NewArray(elems ...Value) *Obj {
	a := &Obj{Class: "Array", Props: map[S16]*Prop{}}
	for i, e := range elems {
		a.Put(IndexKey(uint32(i)), e)
	}
	return a
}

// NewFunction makes a callable object.
func NewFunction(f func(this Value, args []Value) Value) *Obj {
	return &Obj{Class: "Function", Props: map[S16]*Prop{}, Call: f}
}

// NewWrapper is new Number(x) / new String(x) / new Boolean(x).
func NewWrapper(prim Value) *Obj {
	o := &Obj{Props: map[S16]*Prop{}, Prim: prim}
	switch prim.Kind {
	case Number:
		o.Class = "Number"
	case String:
		o.Class = "String"
	case Bool:
		o.Class = "Boolean"
	default:
		panic("wrapper of non-primitive")
	}
	return o
}

// IndexKey is ToString(i) as a property name.
func IndexKey(i uint32) S16 { return K(strconv.FormatUint(uint64(i), 10)) }

// arrayIndex reports whether k is an array index (15.4: ToString(ToUint32(P)) == P, != 2^32-1).
func arrayIndex(k S16) (uint32, bool) {
	u := k.Units()
	if len(u) == 0 || len(u) > 10 {
		return 0, false
	}
	if u[0] == '0' && len(u) > 1 {
		return 0, false
	}
	var n uint64
	for _, c := range u {
		if c < '0' || c > '9' {
			return 0, false
		}
		n = n*10 + uint64(c-'0')
	}
	if n >= 0xFFFFFFFF {
		return 0, false
	}
	return uint32(n), true
}

var lengthKey = K("length")

// GetOwn returns the own property.
func (o *Obj) GetOwn(k S16) (*Prop, bool) {
	p, ok := o.Props[k]
	return p, ok
}

// Get is [[Get]] (8.12.3) for data properties, with the array length and the
// String-object length/index properties left out except array length.
func (o *Obj) Get(k S16) Value {
	for c := o; c != nil; c = c.Proto {
		if c.Class == "Array" && k == lengthKey {
			return Num(float64(c.Len))
		}
		if p, ok := c.Props[k]; ok {
			return p.V
		}
	}
	return Undef
}

// Put defines (or overwrites) an own enumerable writable configurable data
// property — [[DefineOwnProperty]] with {value, true, true, true}. An existing
// key keeps its position in the enumeration order.
func (o *Obj) Put(k S16, v Value) { o.Define(k, v, true) }

// Define is Put with an explicit [[Enumerable]].
func (o *Obj) Define(k S16, v Value, enum bool) {
	if p, ok := o.Props[k]; ok {
		if p.Locked {
			return
		}
		p.V = v
		p.Enum = enum
		return
	}
	o.Props[k] = &Prop{V: v, Enum: enum}
	o.Keys = append(o.Keys, k)
	if o.Class == "Array" {
		if i, ok := arrayIndex(k); ok && i >= o.Len {
			o.Len = i + 1
		}
	}
}

// Delete is [[Delete]] of a configurable own property (length is untouched).
func (o *Obj) Delete(k S16) {
	if p, ok := o.Props[k]; !ok || p.Locked {
		return
	}
	delete(o.Props, k)
	for i, kk := range o.Keys {
		if kk == k {
			if o.AliasDelete {
				o.Keys = append(o.Keys[:i], o.Keys[i+1:]...)
			} else {
				nk := make([]S16, 0, len(o.Keys)-1)
				nk = append(nk, o.Keys[:i]...)
				nk = append(nk, o.Keys[i+1:]...)
				o.Keys = nk
			}
			return
		}
	}
}

// OwnEnumKeys is the list of own enumerable property names in enumeration
// order (a fresh list, as 15.12.2 / 15.12.3 require).
func (o *Obj) OwnEnumKeys() []S16 {
	out := make([]S16, 0, len(o.Keys))
	for _, k := range o.Keys {
		if o.Props[k].Enum {
			out = append(out, k)
		}
	}
	return out
}

// IsCallable is 9.11.
func (v Value) IsCallable() bool { return v.Kind == Object && v.O.Call != nil }

// Throw is an abrupt completion with an error object of the given class.
type Throw struct {
	Class string
	Msg   string
}

func (t *Throw) Error() string { return t.Class + ": " + t.Msg }

func throw(class, msg string) { panic(&Throw{Class: class, Msg: msg}) }

// catch converts a Throw panic into a return value.
func catch(f func()) (t *Throw) {
	defer func() {
		if p := recover(); p != nil {
			if th, ok := p.(*Throw); ok {
				t = th
				return
			}
			panic(p)
		}
	}()
	f()
	return nil
}

// ToInteger is 9.4.
func ToInteger(f float64) float64 {
	switch {
	case math.IsNaN(f):
		return 0
	case f == 0 || math.IsInf(f, 0):
		return f
	}
	return math.Copysign(math.Floor(math.Abs(f)), f)
}

// NumberToString is 9.8.1. The shortest digit string (k as small as possible)
// comes from strconv's shortest round-trip formatting; the layout is the
// clause's.
func NumberToString(m float64) []uint16 {
	switch {
	case math.IsNaN(m):
		return U("NaN")
	case m == 0:
		return U("0")
	case m < 0:
		return append(U("-"), NumberToString(-m)...)
	case math.IsInf(m, 1):
		return U("Infinity")
	}
	e := strconv.FormatFloat(m, 'e', -1, 64) // d.ddde±xx
	mant, exps, _ := strings.Cut(e, "e")
	digits := strings.Replace(mant, ".", "", 1)
	x, _ := strconv.Atoi(exps)
	k, n := len(digits), x+1
	var s string
	switch {
	case k <= n && n <= 21:
		s = digits + strings.Repeat("0", n-k)
	case 0 < n && n <= 21:
		s = digits[:n] + "." + digits[n:]
	case -6 < n && n <= 0:
		s = "0." + strings.Repeat("0", -n) + digits
	default:
		sign := "+"
		ex := n - 1
		if ex < 0 {
			sign = "-"
			ex = -ex
		}
		if k == 1 {
			s = digits + "e" + sign + strconv.Itoa(ex)
		} else {
			s = digits[:1] + "." + digits[1:] + "e" + sign + strconv.Itoa(ex)
		}
	}
	return U(s)
}

// Esc renders code units in printable ASCII (everything else as \uXXXX).
func Esc(u []uint16) string {
	var sb strings.Builder
	for _, c := range u {
		if c >= 0x20 && c < 0x7f && c != '\\' {
			sb.WriteByte(byte(c))
		} else {
			fmt.Fprintf(&sb, "\\u%04X", c)
		}
	}
	return sb.String()
}

// CanonDepth is the depth at which Canon cuts (cycles end there).
const CanonDepth = 8

// Canon renders a value canonically: u, n, t, f, d:<bits>, s:<escaped>,
// [v,v,-] for arrays (- = hole), {k:v,...} for objects, F for functions,
// N(..)/S(..)/B(..) for wrappers. With sorted=true object keys are sorted (the
// comparison of key sets); otherwise they appear in enumeration order.
func Canon(v Value, sorted bool) string {
	var sb strings.Builder
	canon(&sb, v, sorted, 0)
	return sb.String()
}

func canon(sb *strings.Builder, v Value, sorted bool, depth int) {
	switch v.Kind {
	case Undefined:
		sb.WriteString("u")
	case Null:
		sb.WriteString("n")
	case Bool:
		if v.B {
			sb.WriteString("t")
		} else {
			sb.WriteString("f")
		}
	case Number:
		sb.WriteString("d:")
		sb.WriteString(NumCanon(v.N))
	case String:
		sb.WriteString("s:\"")
		sb.WriteString(strings.ReplaceAll(Esc(v.S), `"`, `\u0022`))
		sb.WriteString("\"")
	case Object:
		o := v.O
		if depth >= CanonDepth {
			sb.WriteString("...")
			return
		}
		switch o.Class {
		case "Function":
			sb.WriteString("F")
			return
		case "Number", "String", "Boolean":
			sb.WriteString(o.Class[:1] + "(")
			canon(sb, o.Prim, sorted, depth+1)
			sb.WriteString(")")
			return
		case "Array":
			sb.WriteString("[")
			for i := uint32(0); i < o.Len; i++ {
				if i > 0 {
					sb.WriteString(",")
				}
				if p, ok := o.Props[IndexKey(i)]; ok {
					canon(sb, p.V, sorted, depth+1)
				} else {
					sb.WriteString("-")
				}
			}
			sb.WriteString("]")
			return
		}
		keys := o.OwnEnumKeys()
		if sorted {
			sort.Slice(keys, func(i, j int) bool { return keys[i] < keys[j] })
		}
		if o.Class != "Object" {
			sb.WriteString(o.Class)
		}
		sb.WriteString("{")
		for i, k := range keys {
			if i > 0 {
				sb.WriteString(",")
			}
			sb.WriteString("\"" + strings.ReplaceAll(Esc(k.Units()), `"`, `\u0022`) + "\":")
			canon(sb, o.Props[k].V, sorted, depth+1)
		}
		sb.WriteString("}")
	}
}

// NumCanon renders a number by its IEEE bits (all NaNs equal) plus a readable form.
func NumCanon(f float64) string {
	if math.IsNaN(f) {
		return "NaN"
	}
	return fmt.Sprintf("%016x(%s)", math.Float64bits(f), strconv.FormatFloat(f, 'g', -1, 64))
}

// Lock redefines own property k as {value: v, writable: false, enumerable: true,
// configurable: false} (what Object.defineProperty does on a configurable one).
func (o *Obj) Lock(k S16, v Value) {
	o.Define(k, v, true)
	if p, ok := o.Props[k]; ok {
		p.Locked = true
	}
}
