package json

import "math"

// StringifyResult is the completion of JSON.stringify: undefined, a String, or
// an abrupt completion. Gap is the gap computed in steps 5-8 (for the layout
// reader).
type StringifyResult struct {
	Undefined bool
	Text      []uint16
	Gap       []uint16
	Err       *Throw
}

type sctx struct {
	stack        []*Obj
	indent       []uint16
	gap          []uint16
	propertyList []S16
	hasList      bool
	replacer     Value // callable or Undefined
	liveKeys     bool  // alternative model only, see StringifySkipDeleted
}

// Stringify is JSON.stringify(value, replacer, space) (15.12.3). Absent
// arguments are passed as Undef.
func Stringify(value, replacer, space Value) (res StringifyResult) {
	return stringify(value, replacer, space, false)
}

// StringifySkipDeleted is NOT the specification algorithm: JO takes the list K
// beforehand but skips a name that is no longer an own enumerable property when
// its turn comes (for-in semantics) instead of calling Str(P, value) for every P
// of K — the alternative model of an implementation that reuses its for-in
// enumeration for JSON.stringify.
func StringifySkipDeleted(value, replacer, space Value) StringifyResult {
	return stringify(value, replacer, space, true)
}

func stringify(value, replacer, space Value, liveKeys bool) (res StringifyResult) {
	c := &sctx{replacer: Undef, liveKeys: liveKeys}
	res.Err = catch(func() {
		// step 4
		if replacer.Kind == Object {
			if replacer.IsCallable() {
				c.replacer = replacer
			} else if replacer.O.Class == "Array" {
				c.hasList = true
				c.propertyList = []S16{}
				ro := replacer.O
				for i := uint32(0); i < ro.Len; i++ {
					p, ok := ro.Props[IndexKey(i)]
					if !ok {
						continue
					}
					v := p.V
					var item []uint16
					has := false
					switch {
					case v.Kind == String:
						item, has = v.S, true
					case v.Kind == Number:
						item, has = NumberToString(v.N), true
					case v.Kind == Object && v.O.Class == "String":
						item, has = ToString(v), true
					case v.Kind == Object && v.O.Class == "Number":
						item, has = ToString(v), true
					}
					if !has {
						continue
					}
					k := Key(item)
					dup := false
					for _, e := range c.propertyList {
						if e == k {
							dup = true
						}
					}
					if !dup {
						c.propertyList = append(c.propertyList, k)
					}
				}
			}
		}
		// step 5
		if space.Kind == Object {
			switch space.O.Class {
			case "Number":
				space = Num(ToNumber(space))
			case "String":
				space = Str(ToString(space))
			}
		}
		// steps 6-8
		switch space.Kind {
		case Number:
			n := math.Min(10, ToInteger(space.N))
			for i := 0; float64(i) < n; i++ {
				c.gap = append(c.gap, ' ')
			}
		case String:
			if len(space.S) <= 10 {
				c.gap = append(c.gap, space.S...)
			} else {
				c.gap = append(c.gap, space.S[:10]...)
			}
		}
		res.Gap = c.gap
		// steps 9-11
		wrapper := NewObject()
		wrapper.Put(K(""), value)
		out, ok := c.str(K(""), wrapper)
		if !ok {
			res.Undefined = true
			return
		}
		res.Text = out
	})
	return res
}

// str is the abstract operation Str(key, holder); ok=false means undefined.
func (c *sctx) str(key S16, holder *Obj) ([]uint16, bool) {
	value := holder.Get(key)
	if value.Kind == Object {
		toJSON := value.O.Get(K("toJSON"))
		if toJSON.IsCallable() {
			value = toJSON.O.Call(value, []Value{Str(key.Units())})
		}
	}
	if c.replacer.Kind != Undefined {
		value = c.replacer.O.Call(ObjV(holder), []Value{Str(key.Units()), value})
	}
	if value.Kind == Object {
		switch value.O.Class {
		case "Number":
			value = Num(ToNumber(value))
		case "String":
			value = Str(ToString(value))
		case "Boolean":
			value = value.O.Prim
		}
	}
	switch value.Kind {
	case Null:
		return U("null"), true
	case Bool:
		if value.B {
			return U("true"), true
		}
		return U("false"), true
	case String:
		return Quote(value.S), true
	case Number:
		if math.IsNaN(value.N) || math.IsInf(value.N, 0) {
			return U("null"), true
		}
		return NumberToString(value.N), true
	case Object:
		if !value.IsCallable() {
			if value.O.Class == "Array" {
				return c.ja(value.O), true
			}
			return c.jo(value.O), true
		}
	}
	return nil, false
}

// Quote is the abstract operation Quote(value).
func Quote(s []uint16) []uint16 {
	out := []uint16{'"'}
	for _, ch := range s {
		switch {
		case ch == '"' || ch == '\\':
			out = append(out, '\\', ch)
		case ch == 0x08:
			out = append(out, '\\', 'b')
		case ch == 0x0C:
			out = append(out, '\\', 'f')
		case ch == 0x0A:
			out = append(out, '\\', 'n')
		case ch == 0x0D:
			out = append(out, '\\', 'r')
		case ch == 0x09:
			out = append(out, '\\', 't')
		case ch < 0x20:
			const hex = "0123456789abcdef"
			out = append(out, '\\', 'u', '0', '0', uint16(hex[ch>>4]), uint16(hex[ch&15]))
		default:
			out = append(out, ch)
		}
	}
	return append(out, '"')
}

// MaxStringifyDepth: a structure that toJSON / the replacer function make deeper
// at every visit never ends by the letter of 15.12.3; implementations run out of
// stack, which ES5 engines report as a RangeError. The model does so at a depth
// no finite case of the check comes near.
var MaxStringifyDepth = 2000

func (c *sctx) enter(o *Obj) {
	for _, s := range c.stack {
		if s == o {
			throw("TypeError", "cyclical structure")
		}
	}
	if len(c.stack) >= MaxStringifyDepth {
		throw("RangeError", "JO/JA nested deeper than any finite value (structure grown by toJSON / the replacer)")
	}
	c.stack = append(c.stack, o)
}

func join(parts [][]uint16, sep []uint16) []uint16 {
	var out []uint16
	for i, p := range parts {
		if i > 0 {
			out = append(out, sep...)
		}
		out = append(out, p...)
	}
	return out
}

// jo is the abstract operation JO(value).
func (c *sctx) jo(o *Obj) []uint16 {
	c.enter(o)
	stepback := c.indent
	c.indent = append(append([]uint16{}, c.indent...), c.gap...)
	var keys []S16
	if c.hasList {
		keys = c.propertyList
	} else {
		keys = o.OwnEnumKeys()
	}
	var partial [][]uint16
	for _, p := range keys {
		if c.liveKeys && !c.hasList {
			if pr, ok := o.Props[p]; !ok || !pr.Enum {
				continue
			}
		}
		s, ok := c.str(p, o)
		if !ok {
			continue
		}
		member := Quote(p.Units())
		member = append(member, ':')
		if len(c.gap) > 0 {
			member = append(member, ' ')
		}
		member = append(member, s...)
		partial = append(partial, member)
	}
	var final []uint16
	switch {
	case len(partial) == 0:
		final = U("{}")
	case len(c.gap) == 0:
		final = append(append(U("{"), join(partial, U(","))...), '}')
	default:
		sep := append(U(",\n"), c.indent...)
		final = append(U("{\n"), c.indent...)
		final = append(final, join(partial, sep)...)
		final = append(final, '\n')
		final = append(final, stepback...)
		final = append(final, '}')
	}
	c.stack = c.stack[:len(c.stack)-1]
	c.indent = stepback
	return final
}

// ja is the abstract operation JA(value).
func (c *sctx) ja(o *Obj) []uint16 {
	c.enter(o)
	stepback := c.indent
	c.indent = append(append([]uint16{}, c.indent...), c.gap...)
	var partial [][]uint16
	length := o.Len
	for i := uint32(0); i < length; i++ {
		s, ok := c.str(IndexKey(i), o)
		if !ok {
			s = U("null")
		}
		partial = append(partial, s)
	}
	var final []uint16
	switch {
	case len(partial) == 0:
		final = U("[]")
	case len(c.gap) == 0:
		final = append(append(U("["), join(partial, U(","))...), ']')
	default:
		sep := append(U(",\n"), c.indent...)
		final = append(U("[\n"), c.indent...)
		final = append(final, join(partial, sep)...)
		final = append(final, '\n')
		final = append(final, stepback...)
		final = append(final, ']')
	}
	c.stack = c.stack[:len(c.stack)-1]
	c.indent = stepback
	return final
}
