package json

import (
	"fmt"
	"math"
	"math/big"
)

// SyntaxErr is the error of the recogniser: position and what was expected.
type SyntaxErr struct {
	Pos int
	Msg string
}

func (e *SyntaxErr) Error() string { return fmt.Sprintf("at %d: %s", e.Pos, e.Msg) }

type reader struct {
	t []uint16
	i int
	// layout mode (ReadIndented): no free white space; the 15.12.3 layout with
	// this gap is required instead.
	layout bool
	gap    []uint16
}

func (p *reader) fail(msg string) { panic(&SyntaxErr{Pos: p.i, Msg: msg}) }

func (p *reader) peek() (uint16, bool) {
	if p.i < len(p.t) {
		return p.t[p.i], true
	}
	return 0, false
}

// JSONWhiteSpace :: <TAB> <CR> <LF> <SP>   (15.12.1.1)
func isWS(c uint16) bool { return c == 0x09 || c == 0x0A || c == 0x0D || c == 0x20 }

func (p *reader) ws() {
	if p.layout {
		return
	}
	for p.i < len(p.t) && isWS(p.t[p.i]) {
		p.i++
	}
}

// Parse recognises text as a JSONText (15.12.1) and builds the value it denotes
// (15.12.2 step 2-3: evaluated as an ECMAScript Program; object members are
// defined in text order, a duplicate name overwrites the value of the earlier
// member).
func Parse(text []uint16) (v Value, err error) {
	p := &reader{t: text}
	defer func() {
		if r := recover(); r != nil {
			if se, ok := r.(*SyntaxErr); ok {
				v, err = Undef, se
				return
			}
			panic(r)
		}
	}()
	p.ws()
	v = p.value(0)
	p.ws()
	if p.i != len(p.t) {
		p.fail("unexpected token after JSON value")
	}
	return v, nil
}

// Recognise reports whether text is derivable from JSONText.
func Recognise(text []uint16) bool {
	_, err := Parse(text)
	return err == nil
}

// ReadIndented reads a text laid out exactly as 15.12.3 (JO/JA) lays it out
// with the given gap: no white space at all when the gap is empty; otherwise a
// line feed plus depth*gap before every member/element and before the closing
// bracket of a non-empty container, and one space after every colon. Scalars
// follow the JSON token grammar. The gap may be any string (JSON.stringify does
// not restrict it to white space).
func ReadIndented(text, gap []uint16) (v Value, err error) {
	p := &reader{t: text, layout: true, gap: gap}
	defer func() {
		if r := recover(); r != nil {
			if se, ok := r.(*SyntaxErr); ok {
				v, err = Undef, se
				return
			}
			panic(r)
		}
	}()
	v = p.value(0)
	if p.i != len(p.t) {
		p.fail("unexpected text after value")
	}
	return v, nil
}

// newline consumes LF + depth*gap in layout mode with a non-empty gap.
func (p *reader) newline(depth int) {
	if !p.layout || len(p.gap) == 0 {
		return
	}
	if c, ok := p.peek(); !ok || c != 0x0A {
		p.fail("layout: line feed expected")
	}
	p.i++
	for d := 0; d < depth; d++ {
		for _, g := range p.gap {
			if c, ok := p.peek(); !ok || c != g {
				p.fail(fmt.Sprintf("layout: indentation of %d gaps expected", depth))
			}
			p.i++
		}
	}
}

func (p *reader) value(depth int) Value {
	c, ok := p.peek()
	if !ok {
		p.fail("unexpected end of text")
	}
	switch {
	case c == '{':
		return p.object(depth)
	case c == '[':
		return p.array(depth)
	case c == '"':
		return Str(p.str())
	case c == '-' || (c >= '0' && c <= '9'):
		return Num(p.number())
	case c == 't':
		p.word("true")
		return Boolean(true)
	case c == 'f':
		p.word("false")
		return Boolean(false)
	case c == 'n':
		p.word("null")
		return Nul
	}
	p.fail("unexpected character")
	return Undef
}

func (p *reader) word(w string) {
	for k := 0; k < len(w); k++ {
		if p.i >= len(p.t) || p.t[p.i] != uint16(w[k]) {
			p.fail("bad literal, expected " + w)
		}
		p.i++
	}
}

// JSONObject : { } | { JSONMemberList }
func (p *reader) object(depth int) Value {
	p.i++ // {
	o := NewObject()
	p.ws()
	if c, ok := p.peek(); ok && c == '}' {
		p.i++
		return ObjV(o)
	}
	for {
		p.newline(depth + 1)
		if c, ok := p.peek(); !ok || c != '"' {
			p.fail("member name (JSONString) expected")
		}
		name := p.str()
		p.ws()
		if c, ok := p.peek(); !ok || c != ':' {
			p.fail("':' expected")
		}
		p.i++
		if p.layout && len(p.gap) > 0 {
			if c, ok := p.peek(); !ok || c != ' ' {
				p.fail("layout: one space after ':' expected")
			}
			p.i++
		}
		p.ws()
		v := p.value(depth + 1)
		o.Put(Key(name), v)
		p.ws()
		c, ok := p.peek()
		if ok && c == ',' {
			p.i++
			p.ws()
			continue
		}
		p.newline(depth)
		c, ok = p.peek()
		if ok && c == '}' {
			p.i++
			return ObjV(o)
		}
		p.fail("',' or '}' expected")
	}
}

// JSONArray : [ ] | [ JSONElementList ]
func (p *reader) array(depth int) Value {
	p.i++ // [
	a := NewArray()
	p.ws()
	if c, ok := p.peek(); ok && c == ']' {
		p.i++
		return ObjV(a)
	}
	var n uint32
	for {
		p.newline(depth + 1)
		v := p.value(depth + 1)
		a.Put(IndexKey(n), v)
		n++
		p.ws()
		c, ok := p.peek()
		if ok && c == ',' {
			p.i++
			p.ws()
			continue
		}
		p.newline(depth)
		c, ok = p.peek()
		if ok && c == ']' {
			p.i++
			return ObjV(a)
		}
		p.fail("',' or ']' expected")
	}
}

// JSONString :: " JSONStringCharacters? "
// JSONStringCharacter :: SourceCharacter but not one of " or \ or U+0000 through U+001F | \ JSONEscapeSequence
// JSONEscapeSequence :: JSONEscapeCharacter (one of " / \ b f n r t) | UnicodeEscapeSequence
func (p *reader) str() []uint16 {
	p.i++ // "
	out := []uint16{}
	for {
		c, ok := p.peek()
		if !ok {
			p.fail("unterminated string")
		}
		p.i++
		switch {
		case c == '"':
			return out
		case c <= 0x1F:
			p.i--
			p.fail("control character in string")
		case c == '\\':
			e, ok := p.peek()
			if !ok {
				p.fail("unterminated escape")
			}
			p.i++
			switch e {
			case '"', '/', '\\':
				out = append(out, e)
			case 'b':
				out = append(out, 0x08)
			case 'f':
				out = append(out, 0x0C)
			case 'n':
				out = append(out, 0x0A)
			case 'r':
				out = append(out, 0x0D)
			case 't':
				out = append(out, 0x09)
			case 'u':
				var cu uint16
				for k := 0; k < 4; k++ {
					h, ok := p.peek()
					if !ok {
						p.fail("unterminated unicode escape")
					}
					var d uint16
					switch {
					case h >= '0' && h <= '9':
						d = h - '0'
					case h >= 'a' && h <= 'f':
						d = h - 'a' + 10
					case h >= 'A' && h <= 'F':
						d = h - 'A' + 10
					default:
						p.fail("hex digit expected")
					}
					cu = cu<<4 | d
					p.i++
				}
				out = append(out, cu)
			default:
				p.i--
				p.fail("bad escape character")
			}
		default:
			out = append(out, c)
		}
	}
}

// JSONNumber :: -opt DecimalIntegerLiteral JSONFraction_opt ExponentPart_opt
func (p *reader) number() float64 {
	neg := false
	if c, _ := p.peek(); c == '-' {
		neg = true
		p.i++
	}
	digit := func() (uint16, bool) {
		c, ok := p.peek()
		if ok && c >= '0' && c <= '9' {
			return c, true
		}
		return 0, false
	}
	var digits []byte // integer and fraction digits
	c, ok := digit()
	if !ok {
		p.fail("digit expected")
	}
	p.i++
	digits = append(digits, byte(c))
	if c != '0' { // DecimalIntegerLiteral :: 0 | NonZeroDigit DecimalDigits_opt
		for {
			c, ok := digit()
			if !ok {
				break
			}
			p.i++
			digits = append(digits, byte(c))
		}
	}
	frac := 0
	if c, ok := p.peek(); ok && c == '.' {
		p.i++
		if _, ok := digit(); !ok {
			p.fail("digit expected after '.'")
		}
		for {
			c, ok := digit()
			if !ok {
				break
			}
			p.i++
			digits = append(digits, byte(c))
			frac++
		}
	}
	exp := 0
	if c, ok := p.peek(); ok && (c == 'e' || c == 'E') {
		p.i++
		eneg := false
		if s, ok := p.peek(); ok && (s == '+' || s == '-') {
			eneg = s == '-'
			p.i++
		}
		if _, ok := digit(); !ok {
			p.fail("digit expected in exponent")
		}
		for {
			c, ok := digit()
			if !ok {
				break
			}
			p.i++
			if exp < 100000 {
				exp = exp*10 + int(c-'0')
			}
		}
		if eneg {
			exp = -exp
		}
	}
	f := decimalToFloat(digits, exp-frac)
	if neg {
		f = -f
	}
	return f
}

var pow10 = [...]float64{1e0, 1e1, 1e2, 1e3, 1e4, 1e5, 1e6, 1e7, 1e8, 1e9, 1e10, 1e11, 1e12, 1e13, 1e14, 1e15, 1e16, 1e17, 1e18, 1e19, 1e20, 1e21, 1e22}

// decimalToFloat is the Number value for digits × 10^e10 (7.8.3 MV, rounded to
// nearest, ties to even — 8.5). Exact fast path (both operands exactly
// representable, one correctly rounded operation); otherwise exact rational
// arithmetic.
func decimalToFloat(digits []byte, e10 int) float64 {
	for len(digits) > 1 && digits[0] == '0' {
		digits = digits[1:]
	}
	for len(digits) > 1 && digits[len(digits)-1] == '0' {
		digits = digits[:len(digits)-1]
		e10++
	}
	if len(digits) == 1 && digits[0] == '0' {
		return 0
	}
	if len(digits) <= 15 && e10 >= -22 && e10 <= 22 {
		var m float64
		for _, d := range digits {
			m = m*10 + float64(d-'0')
		}
		if e10 < 0 {
			return m / pow10[-e10]
		}
		return m * pow10[e10]
	}
	if e10+len(digits) > 400 {
		return math.Inf(1)
	}
	if e10+len(digits) < -400 {
		return 0
	}
	m, _ := new(big.Int).SetString(string(digits), 10)
	r := new(big.Rat).SetInt(m)
	ten := big.NewInt(10)
	if e10 >= 0 {
		r.Mul(r, new(big.Rat).SetInt(new(big.Int).Exp(ten, big.NewInt(int64(e10)), nil)))
	} else {
		r.Quo(r, new(big.Rat).SetInt(new(big.Int).Exp(ten, big.NewInt(int64(-e10)), nil)))
	}
	f, _ := r.Float64()
	return f
}

// ParseRevive is JSON.parse(text, reviver) (15.12.2). A reviver that is not
// callable is ignored. The result is the value, or the abrupt completion
// (SyntaxError, or whatever the reviver threw).
func ParseRevive(text []uint16, reviver Value) (v Value, t *Throw) {
	t = catch(func() {
		unfiltered, err := Parse(text)
		if err != nil {
			throw("SyntaxError", err.Error())
		}
		if reviver.IsCallable() {
			root := NewObject()
			root.Put(K(""), unfiltered)
			v = Walk(reviver, root, K(""), false)
			return
		}
		v = unfiltered
	})
	return v, t
}

// MaxWalkDepth is the recursion depth at which Walk gives up with a RangeError.
var MaxWalkDepth = 5000

var walkDepth int

// Walk is the abstract operation Walk(holder, name) of 15.12.2. With
// aliasKeys=true the key list of an object is NOT a snapshot but the live key
// slice of an AliasDelete object — the alternative model of an implementation
// that iterates its property-order slice while deleting from it.
func Walk(reviver Value, holder *Obj, name S16, aliasKeys bool) Value {
	// By the letter of 15.12.2 Walk does not terminate on a value that a reviver
	// has made cyclic; every implementation runs out of stack, which ES5 engines
	// report as a RangeError. The model does the same at a depth no acyclic case
	// of the check comes near.
	walkDepth++
	defer func() { walkDepth-- }()
	if walkDepth > MaxWalkDepth {
		throw("RangeError", "Walk recursion deeper than any finite value (cyclic structure made by the reviver)")
	}
	val := holder.Get(name)
	if val.Kind == Object {
		o := val.O
		if o.Class == "Array" {
			length := o.Len
			for i := uint32(0); i < length; i++ {
				k := IndexKey(i)
				ne := Walk(reviver, o, k, aliasKeys)
				if ne.Kind == Undefined {
					o.Delete(k)
				} else {
					o.Put(k, ne)
				}
			}
		} else {
			var keys []S16
			if aliasKeys {
				keys = o.Keys // live slice header: same backing array, fixed length
			} else {
				keys = o.OwnEnumKeys()
			}
			for _, k := range keys {
				if aliasKeys {
					// the implementation modelled re-checks enumerability of the (possibly stale) name
					if p, ok := o.Props[k]; !ok || !p.Enum {
						continue
					}
				}
				ne := Walk(reviver, o, k, aliasKeys)
				if ne.Kind == Undefined {
					o.Delete(k)
				} else {
					o.Put(k, ne)
				}
			}
		}
	}
	return reviver.O.Call(ObjV(holder), []Value{Str(name.Units()), val})
}
