// Package mathspec is the reference model for the function properties of the
// Math object, ES5.1 15.8.2: every special-case bullet of 15.8.2.1-15.8.2.18 as
// a table row with its exact result class, the functions ES5 defines exactly
// (abs, ceil, floor, round, max, min, sqrt as the correctly rounded root)
// computed in exact rational arithmetic, and helpers for the tolerance laws the
// check asserts off the table.
//
// The model does not call math.Floor/Ceil/Round/Pow/Atan2/... (the library the
// implementation under test delegates to); only math.Float64bits/frombits,
// math.Inf/NaN/IsNaN/IsInf/Signbit and math/big are used.
package mathspec

import (
	"fmt"
	"math"
	"math/big"
)

// Kind says how a result is constrained.
type Kind int

const (
	// Free: no bullet of 15.8.2 applies; the result is an
	// "implementation-dependent approximation" constrained only by the laws.
	Free Kind = iota
	// Exact: the result must be exactly Val (NaN class, signed zeros distinct).
	Exact
	// Approx: the bullet says "an implementation-dependent approximation to
	// <constant>"; the result must be within Ulps of Val (Val is the nearest double).
	Approx
)

// Spec is the model's verdict for one argument tuple.
type Spec struct {
	Kind Kind
	Val  float64
	Ulps uint64
	Row  string // text of the bullet(s) that fired
}

func (s Spec) String() string {
	switch s.Kind {
	case Exact:
		return Num(s.Val)
	case Approx:
		return fmt.Sprintf("~%s (within %d ulp)", Num(s.Val), s.Ulps)
	}
	return "approximated"
}

// Num renders a double by class.
func Num(f float64) string {
	switch {
	case f != f:
		return "NaN"
	case f == 0 && math.Signbit(f):
		return "-0"
	case f == 0:
		return "0"
	case f > math.MaxFloat64:
		return "Infinity"
	case f < -math.MaxFloat64:
		return "-Infinity"
	}
	return fmt.Sprintf("%.17g", f)
}

// Same reports equality by class: all NaNs equal, +0 and -0 distinct.
func Same(a, b float64) bool {
	if a != a || b != b {
		return a != a && b != b
	}
	return math.Float64bits(a) == math.Float64bits(b)
}

// Accepts reports whether an observed result satisfies the spec.
func (s Spec) Accepts(obs float64) bool {
	switch s.Kind {
	case Exact:
		return Same(s.Val, obs)
	case Approx:
		return obs == obs && UlpDiff(s.Val, obs) <= s.Ulps
	}
	return true
}

// nearest doubles of the constants named in the bullets
const (
	Pi       = 3.141592653589793  // 0x400921FB54442D18
	PiHalf   = 1.5707963267948966 // 0x3FF921FB54442D18
	PiFourth = 0.7853981633974483 // 0x3FE921FB54442D18
	Pi3_4    = 2.356194490192345  // 0x4002D97C7F3321D2
	E        = 2.718281828459045  // 0x4005BF0A8B145769
	MinValue = 5e-324             // 2^-1074
	MinNorm  = 2.2250738585072014e-308
)

var (
	nan    = math.NaN()
	inf    = math.Inf(1)
	negInf = math.Inf(-1)
	negZ   = math.Copysign(0, -1)
)

func isPosZero(x float64) bool { return x == 0 && !math.Signbit(x) }
func isNegZero(x float64) bool { return x == 0 && math.Signbit(x) }
func isNaN(x float64) bool     { return x != x }
func finite(x float64) bool    { return x == x && x <= math.MaxFloat64 && x >= -math.MaxFloat64 }
func absf(x float64) float64   { return math.Float64frombits(math.Float64bits(x) &^ (1 << 63)) }

// IsInteger reports whether x is a finite mathematical integer.
func IsInteger(x float64) bool {
	if !finite(x) {
		return false
	}
	a := absf(x)
	if a >= 1<<53 {
		return true
	}
	return float64(int64(a)) == a
}

// IsOddInteger reports whether x is a finite odd integer.
func IsOddInteger(x float64) bool {
	if !IsInteger(x) {
		return false
	}
	a := absf(x)
	if a >= 1<<53 {
		return false // every double >= 2^53 is even
	}
	return int64(a)&1 == 1
}

// row of the special-case table
type row struct {
	fn   string
	text string
	cond func(a, b float64) bool // a = first argument, b = second (binary functions)
	res  func(a, b float64) Spec
}

func ex(v float64) func(a, b float64) Spec {
	return func(_, _ float64) Spec { return Spec{Kind: Exact, Val: v} }
}
func ap(v float64) func(a, b float64) Spec {
	return func(_, _ float64) Spec { return Spec{Kind: Approx, Val: v, Ulps: 1} }
}

func u(fn, text string, cond func(x float64) bool, res func(a, b float64) Spec) row {
	return row{fn, text, func(a, _ float64) bool { return cond(a) }, res}
}

// Rows is the transcription of the bullets of ES5.1 15.8.2.x. The first
// argument is named as in the clause (x; y for atan2).
var rows = []row{
	// 15.8.2.1 abs
	u("abs", "x is NaN -> NaN", isNaN, ex(nan)),
	u("abs", "x is -0 -> +0", isNegZero, ex(0)),
	u("abs", "x is -Inf -> +Inf", func(x float64) bool { return x == negInf }, ex(inf)),
	// 15.8.2.2 acos
	u("acos", "x is NaN -> NaN", isNaN, ex(nan)),
	u("acos", "x > 1 -> NaN", func(x float64) bool { return x > 1 }, ex(nan)),
	u("acos", "x < -1 -> NaN", func(x float64) bool { return x < -1 }, ex(nan)),
	u("acos", "x is exactly 1 -> +0", func(x float64) bool { return x == 1 }, ex(0)),
	// 15.8.2.3 asin
	u("asin", "x is NaN -> NaN", isNaN, ex(nan)),
	u("asin", "x > 1 -> NaN", func(x float64) bool { return x > 1 }, ex(nan)),
	u("asin", "x < -1 -> NaN", func(x float64) bool { return x < -1 }, ex(nan)),
	u("asin", "x is +0 -> +0", isPosZero, ex(0)),
	u("asin", "x is -0 -> -0", isNegZero, ex(negZ)),
	// 15.8.2.4 atan
	u("atan", "x is NaN -> NaN", isNaN, ex(nan)),
	u("atan", "x is +0 -> +0", isPosZero, ex(0)),
	u("atan", "x is -0 -> -0", isNegZero, ex(negZ)),
	u("atan", "x is +Inf -> ~ +pi/2", func(x float64) bool { return x == inf }, ap(PiHalf)),
	u("atan", "x is -Inf -> ~ -pi/2", func(x float64) bool { return x == negInf }, ap(-PiHalf)),
	// 15.8.2.5 atan2 (a = y, b = x)
	{"atan2", "either x or y is NaN -> NaN", func(y, x float64) bool { return isNaN(x) || isNaN(y) }, ex(nan)},
	{"atan2", "y>0 and x is +0 -> ~ +pi/2", func(y, x float64) bool { return y > 0 && isPosZero(x) }, ap(PiHalf)},
	{"atan2", "y>0 and x is -0 -> ~ +pi/2", func(y, x float64) bool { return y > 0 && isNegZero(x) }, ap(PiHalf)},
	{"atan2", "y is +0 and x>0 -> +0", func(y, x float64) bool { return isPosZero(y) && x > 0 }, ex(0)},
	{"atan2", "y is +0 and x is +0 -> +0", func(y, x float64) bool { return isPosZero(y) && isPosZero(x) }, ex(0)},
	{"atan2", "y is +0 and x is -0 -> ~ +pi", func(y, x float64) bool { return isPosZero(y) && isNegZero(x) }, ap(Pi)},
	{"atan2", "y is +0 and x<0 -> ~ +pi", func(y, x float64) bool { return isPosZero(y) && x < 0 }, ap(Pi)},
	{"atan2", "y is -0 and x>0 -> -0", func(y, x float64) bool { return isNegZero(y) && x > 0 }, ex(negZ)},
	{"atan2", "y is -0 and x is +0 -> -0", func(y, x float64) bool { return isNegZero(y) && isPosZero(x) }, ex(negZ)},
	{"atan2", "y is -0 and x is -0 -> ~ -pi", func(y, x float64) bool { return isNegZero(y) && isNegZero(x) }, ap(-Pi)},
	{"atan2", "y is -0 and x<0 -> ~ -pi", func(y, x float64) bool { return isNegZero(y) && x < 0 }, ap(-Pi)},
	{"atan2", "y<0 and x is +0 -> ~ -pi/2", func(y, x float64) bool { return y < 0 && isPosZero(x) }, ap(-PiHalf)},
	{"atan2", "y<0 and x is -0 -> ~ -pi/2", func(y, x float64) bool { return y < 0 && isNegZero(x) }, ap(-PiHalf)},
	{"atan2", "y>0 and y finite and x is +Inf -> +0", func(y, x float64) bool { return y > 0 && finite(y) && x == inf }, ex(0)},
	{"atan2", "y>0 and y finite and x is -Inf -> ~ +pi", func(y, x float64) bool { return y > 0 && finite(y) && x == negInf }, ap(Pi)},
	{"atan2", "y<0 and y finite and x is +Inf -> -0", func(y, x float64) bool { return y < 0 && finite(y) && x == inf }, ex(negZ)},
	{"atan2", "y<0 and y finite and x is -Inf -> ~ -pi", func(y, x float64) bool { return y < 0 && finite(y) && x == negInf }, ap(-Pi)},
	{"atan2", "y is +Inf and x finite -> ~ +pi/2", func(y, x float64) bool { return y == inf && finite(x) }, ap(PiHalf)},
	{"atan2", "y is -Inf and x finite -> ~ -pi/2", func(y, x float64) bool { return y == negInf && finite(x) }, ap(-PiHalf)},
	{"atan2", "y is +Inf and x is +Inf -> ~ +pi/4", func(y, x float64) bool { return y == inf && x == inf }, ap(PiFourth)},
	{"atan2", "y is +Inf and x is -Inf -> ~ +3pi/4", func(y, x float64) bool { return y == inf && x == negInf }, ap(Pi3_4)},
	{"atan2", "y is -Inf and x is +Inf -> ~ -pi/4", func(y, x float64) bool { return y == negInf && x == inf }, ap(-PiFourth)},
	{"atan2", "y is -Inf and x is -Inf -> ~ -3pi/4", func(y, x float64) bool { return y == negInf && x == negInf }, ap(-Pi3_4)},
	// 15.8.2.6 ceil
	u("ceil", "x is NaN -> NaN", isNaN, ex(nan)),
	u("ceil", "x is +0 -> +0", isPosZero, ex(0)),
	u("ceil", "x is -0 -> -0", isNegZero, ex(negZ)),
	u("ceil", "x is +Inf -> +Inf", func(x float64) bool { return x == inf }, ex(inf)),
	u("ceil", "x is -Inf -> -Inf", func(x float64) bool { return x == negInf }, ex(negInf)),
	u("ceil", "x<0 but >-1 -> -0", func(x float64) bool { return x < 0 && x > -1 }, ex(negZ)),
	// 15.8.2.7 cos
	u("cos", "x is NaN -> NaN", isNaN, ex(nan)),
	u("cos", "x is +0 -> 1", isPosZero, ex(1)),
	u("cos", "x is -0 -> 1", isNegZero, ex(1)),
	u("cos", "x is +Inf -> NaN", func(x float64) bool { return x == inf }, ex(nan)),
	u("cos", "x is -Inf -> NaN", func(x float64) bool { return x == negInf }, ex(nan)),
	// 15.8.2.8 exp
	u("exp", "x is NaN -> NaN", isNaN, ex(nan)),
	u("exp", "x is +0 -> 1", isPosZero, ex(1)),
	u("exp", "x is -0 -> 1", isNegZero, ex(1)),
	u("exp", "x is +Inf -> +Inf", func(x float64) bool { return x == inf }, ex(inf)),
	u("exp", "x is -Inf -> +0", func(x float64) bool { return x == negInf }, ex(0)),
	// 15.8.2.9 floor
	u("floor", "x is NaN -> NaN", isNaN, ex(nan)),
	u("floor", "x is +0 -> +0", isPosZero, ex(0)),
	u("floor", "x is -0 -> -0", isNegZero, ex(negZ)),
	u("floor", "x is +Inf -> +Inf", func(x float64) bool { return x == inf }, ex(inf)),
	u("floor", "x is -Inf -> -Inf", func(x float64) bool { return x == negInf }, ex(negInf)),
	u("floor", "x>0 but <1 -> +0", func(x float64) bool { return x > 0 && x < 1 }, ex(0)),
	// 15.8.2.10 log
	u("log", "x is NaN -> NaN", isNaN, ex(nan)),
	u("log", "x<0 -> NaN", func(x float64) bool { return x < 0 }, ex(nan)),
	u("log", "x is +0 or -0 -> -Inf", func(x float64) bool { return x == 0 }, ex(negInf)),
	u("log", "x is 1 -> +0", func(x float64) bool { return x == 1 }, ex(0)),
	u("log", "x is +Inf -> +Inf", func(x float64) bool { return x == inf }, ex(inf)),
	// 15.8.2.13 pow (a = x, b = y)
	{"pow", "y is NaN -> NaN", func(x, y float64) bool { return isNaN(y) }, ex(nan)},
	{"pow", "y is +0 -> 1, even if x is NaN", func(x, y float64) bool { return isPosZero(y) }, ex(1)},
	{"pow", "y is -0 -> 1, even if x is NaN", func(x, y float64) bool { return isNegZero(y) }, ex(1)},
	{"pow", "x is NaN and y is nonzero -> NaN", func(x, y float64) bool { return isNaN(x) && y != 0 }, ex(nan)},
	{"pow", "abs(x)>1 and y is +Inf -> +Inf", func(x, y float64) bool { return absf(x) > 1 && y == inf }, ex(inf)},
	{"pow", "abs(x)>1 and y is -Inf -> +0", func(x, y float64) bool { return absf(x) > 1 && y == negInf }, ex(0)},
	{"pow", "abs(x)==1 and y is +Inf -> NaN", func(x, y float64) bool { return absf(x) == 1 && y == inf }, ex(nan)},
	{"pow", "abs(x)==1 and y is -Inf -> NaN", func(x, y float64) bool { return absf(x) == 1 && y == negInf }, ex(nan)},
	{"pow", "abs(x)<1 and y is +Inf -> +0", func(x, y float64) bool { return absf(x) < 1 && y == inf }, ex(0)},
	{"pow", "abs(x)<1 and y is -Inf -> +Inf", func(x, y float64) bool { return absf(x) < 1 && y == negInf }, ex(inf)},
	{"pow", "x is +Inf and y>0 -> +Inf", func(x, y float64) bool { return x == inf && y > 0 }, ex(inf)},
	{"pow", "x is +Inf and y<0 -> +0", func(x, y float64) bool { return x == inf && y < 0 }, ex(0)},
	{"pow", "x is -Inf and y>0 and y is an odd integer -> -Inf", func(x, y float64) bool { return x == negInf && y > 0 && IsOddInteger(y) }, ex(negInf)},
	{"pow", "x is -Inf and y>0 and y is not an odd integer -> +Inf", func(x, y float64) bool { return x == negInf && y > 0 && !IsOddInteger(y) }, ex(inf)},
	{"pow", "x is -Inf and y<0 and y is an odd integer -> -0", func(x, y float64) bool { return x == negInf && y < 0 && IsOddInteger(y) }, ex(negZ)},
	{"pow", "x is -Inf and y<0 and y is not an odd integer -> +0", func(x, y float64) bool { return x == negInf && y < 0 && !IsOddInteger(y) }, ex(0)},
	{"pow", "x is +0 and y>0 -> +0", func(x, y float64) bool { return isPosZero(x) && y > 0 }, ex(0)},
	{"pow", "x is +0 and y<0 -> +Inf", func(x, y float64) bool { return isPosZero(x) && y < 0 }, ex(inf)},
	{"pow", "x is -0 and y>0 and y is an odd integer -> -0", func(x, y float64) bool { return isNegZero(x) && y > 0 && IsOddInteger(y) }, ex(negZ)},
	{"pow", "x is -0 and y>0 and y is not an odd integer -> +0", func(x, y float64) bool { return isNegZero(x) && y > 0 && !IsOddInteger(y) }, ex(0)},
	{"pow", "x is -0 and y<0 and y is an odd integer -> -Inf", func(x, y float64) bool { return isNegZero(x) && y < 0 && IsOddInteger(y) }, ex(negInf)},
	{"pow", "x is -0 and y<0 and y is not an odd integer -> +Inf", func(x, y float64) bool { return isNegZero(x) && y < 0 && !IsOddInteger(y) }, ex(inf)},
	{"pow", "x<0 and x finite and y finite and y is not an integer -> NaN", func(x, y float64) bool { return x < 0 && finite(x) && finite(y) && !IsInteger(y) }, ex(nan)},
	// 15.8.2.15 round
	u("round", "x is NaN -> NaN", isNaN, ex(nan)),
	u("round", "x is +0 -> +0", isPosZero, ex(0)),
	u("round", "x is -0 -> -0", isNegZero, ex(negZ)),
	u("round", "x is +Inf -> +Inf", func(x float64) bool { return x == inf }, ex(inf)),
	u("round", "x is -Inf -> -Inf", func(x float64) bool { return x == negInf }, ex(negInf)),
	u("round", "x>0 but <0.5 -> +0", func(x float64) bool { return x > 0 && x < 0.5 }, ex(0)),
	u("round", "x<0 but >=-0.5 -> -0", func(x float64) bool { return x < 0 && x >= -0.5 }, ex(negZ)),
	// 15.8.2.16 sin
	u("sin", "x is NaN -> NaN", isNaN, ex(nan)),
	u("sin", "x is +0 -> +0", isPosZero, ex(0)),
	u("sin", "x is -0 -> -0", isNegZero, ex(negZ)),
	u("sin", "x is +Inf or -Inf -> NaN", func(x float64) bool { return x == inf || x == negInf }, ex(nan)),
	// 15.8.2.17 sqrt
	u("sqrt", "x is NaN -> NaN", isNaN, ex(nan)),
	u("sqrt", "x<0 -> NaN", func(x float64) bool { return x < 0 }, ex(nan)),
	u("sqrt", "x is +0 -> +0", isPosZero, ex(0)),
	u("sqrt", "x is -0 -> -0", isNegZero, ex(negZ)),
	u("sqrt", "x is +Inf -> +Inf", func(x float64) bool { return x == inf }, ex(inf)),
	// 15.8.2.18 tan
	u("tan", "x is NaN -> NaN", isNaN, ex(nan)),
	u("tan", "x is +0 -> +0", isPosZero, ex(0)),
	u("tan", "x is -0 -> -0", isNegZero, ex(negZ)),
	u("tan", "x is +Inf or -Inf -> NaN", func(x float64) bool { return x == inf || x == negInf }, ex(nan)),
}

// NumRows is the number of transcribed bullets (for evidence).
func NumRows() int { return len(rows) }

// Unary are the one-argument functions of ES5 15.8.2, Binary the two-argument ones.
var (
	Unary  = []string{"abs", "acos", "asin", "atan", "ceil", "cos", "exp", "floor", "log", "round", "sin", "sqrt", "tan"}
	Binary = []string{"atan2", "pow"}
)

// exactFns are defined exactly by ES5 for every argument.
var exactFns = map[string]func(float64) float64{"abs": Abs, "ceil": Ceil, "floor": Floor, "round": Round}

// Lookup returns the model's verdict for fn(a) or fn(a, b): the union of all
// bullets that apply (they must agree, else an error is returned: oracle
// self-check), refined by the exactly defined functions.
func Lookup(fn string, a, b float64) (Spec, error) {
	var out Spec
	hit := false
	for i := range rows {
		r := &rows[i]
		if r.fn != fn || !r.cond(a, b) {
			continue
		}
		s := r.res(a, b)
		s.Row = r.text
		if hit {
			if s.Kind != out.Kind || !Same(s.Val, out.Val) {
				return out, fmt.Errorf("mathspec: bullets disagree for %s(%s,%s): %q=%s vs %q=%s", fn, Num(a), Num(b), out.Row, out, r.text, s)
			}
			out.Row += "; " + r.text
			continue
		}
		out, hit = s, true
	}
	if f := exactFns[fn]; f != nil {
		v := f(a)
		if hit && !(out.Kind == Exact && Same(out.Val, v)) {
			return out, fmt.Errorf("mathspec: exact %s(%s)=%s disagrees with bullet %q=%s", fn, Num(a), Num(v), out.Row, out)
		}
		row := out.Row
		if row == "" {
			row = "exact definition"
		}
		return Spec{Kind: Exact, Val: v, Row: row}, nil
	}
	return out, nil
}

// ---- exactly defined functions --------------------------------------------

// Abs is 15.8.2.1: same magnitude, positive sign.
func Abs(x float64) float64 {
	if x != x {
		return nan
	}
	return absf(x)
}

func ratOf(x float64) *big.Rat { return new(big.Rat).SetFloat64(x) }

// floorRat returns the largest integer <= r.
func floorRat(r *big.Rat) *big.Int {
	q := new(big.Int)
	m := new(big.Int)
	q.DivMod(r.Num(), r.Denom(), m) // Euclidean: m >= 0, so q is the floor for a positive denominator
	return q
}

func intToFloat(n *big.Int) float64 {
	f, _ := new(big.Float).SetInt(n).Float64()
	return f
}

// Floor is 15.8.2.9: the greatest integer not greater than x.
func Floor(x float64) float64 {
	if x != x || x == 0 || !finite(x) {
		return x
	}
	n := floorRat(ratOf(x))
	if n.Sign() == 0 {
		return 0 // 0 < x < 1
	}
	return intToFloat(n)
}

// Ceil is 15.8.2.6: the smallest integer not less than x; -0 for -1 < x < 0.
func Ceil(x float64) float64 {
	if x != x || x == 0 || !finite(x) {
		return x
	}
	n := floorRat(new(big.Rat).Neg(ratOf(x)))
	n.Neg(n)
	if n.Sign() == 0 {
		return negZ // -1 < x < 0
	}
	return intToFloat(n)
}

// Round is 15.8.2.15: the integer closest to x, ties towards +Inf, i.e.
// floor(x + 0.5) with the addition carried out exactly; -0 for -0.5 <= x < 0
// and for x = -0.
func Round(x float64) float64 {
	if x != x || x == 0 || !finite(x) {
		return x
	}
	r := ratOf(x)
	r.Add(r, big.NewRat(1, 2))
	n := floorRat(r)
	if n.Sign() == 0 {
		if x < 0 {
			return negZ
		}
		return 0
	}
	return intToFloat(n)
}

// MaxMin is 15.8.2.11 / 15.8.2.12 on the ToNumber results of the arguments.
func MaxMin(max bool, args []float64) float64 {
	res := negInf
	if !max {
		res = inf
	}
	for _, a := range args {
		if a != a {
			return nan
		}
	}
	for _, a := range args {
		if max {
			// +0 is considered larger than -0
			if a > res || (a == 0 && res == 0 && !math.Signbit(a)) {
				res = a
			}
		} else {
			if a < res || (a == 0 && res == 0 && math.Signbit(a)) {
				res = a
			}
		}
	}
	return res
}

// SqrtCorrect reports whether r is the correctly rounded (round-to-nearest)
// square root of the finite x > 0: (r - ulp/2)^2 <= x <= (r + ulp/2)^2 in exact
// arithmetic. IEEE 754 square root is correctly rounded, and a square root is
// never an exact tie, so this identifies r uniquely.
func SqrtCorrect(x, r float64) bool {
	if !(x > 0) || !finite(x) || !(r > 0) || !finite(r) {
		return false
	}
	lo := new(big.Rat).Add(ratOf(r), ratOf(Pred(r)))
	lo.Quo(lo, big.NewRat(2, 1))
	hi := new(big.Rat).Add(ratOf(r), ratOf(Succ(r)))
	hi.Quo(hi, big.NewRat(2, 1))
	lo.Mul(lo, lo)
	hi.Mul(hi, hi)
	xr := ratOf(x)
	return lo.Cmp(xr) <= 0 && xr.Cmp(hi) <= 0
}

// PowExact returns x^y when x and y are integers with 1 <= y <= 64 and the
// result is exactly representable in a double (computed in big.Int), or when
// x is a power of two and y a negative integer with representable result.
func PowExact(x, y float64) (float64, bool) {
	if !IsInteger(x) || !IsInteger(y) || x == 0 || absf(y) > 64 || y == 0 {
		return 0, false
	}
	bx, _ := new(big.Float).SetFloat64(x).Int(nil)
	n := int64(absf(y))
	p := new(big.Int).Exp(bx, big.NewInt(n), nil)
	pa := new(big.Int).Abs(p)
	// representable iff the odd part fits in 53 bits and the exponent is in range
	tz := pa.TrailingZeroBits()
	odd := new(big.Int).Rsh(pa, tz)
	if odd.BitLen() > 53 || pa.BitLen() > 1024 {
		return 0, false
	}
	f := intToFloat(p)
	if y > 0 {
		return f, true
	}
	if odd.BitLen() != 1 || pa.BitLen() > 1022 { // 1/p exact only for powers of two (kept in the normal range)
		return 0, false
	}
	return 1 / f, true // exact: power of two reciprocal
}

// ---- ulp arithmetic --------------------------------------------------------

// ord maps doubles to integers so that adjacent doubles are adjacent integers.
func ord(f float64) int64 {
	b := int64(math.Float64bits(f))
	if b < 0 {
		return math.MinInt64 - b // negative range reversed; -0 maps to 0 like +0
	}
	return b
}

// UlpDiff is the number of representable doubles between a and b (0 = equal;
// +0 and -0 count as equal). NaN or infinities give MaxUint64 unless identical.
func UlpDiff(a, b float64) uint64 {
	if a != a || b != b || !finite(a) || !finite(b) {
		if Same(a, b) {
			return 0
		}
		return math.MaxUint64
	}
	oa, ob := ord(a), ord(b)
	if oa > ob {
		oa, ob = ob, oa
	}
	return uint64(ob - oa)
}

// Succ is the next double above the finite x; Pred the next below.
func Succ(x float64) float64 {
	if x == 0 {
		return MinValue
	}
	b := math.Float64bits(x)
	if x > 0 {
		return math.Float64frombits(b + 1)
	}
	return math.Float64frombits(b - 1)
}

// Pred is the next double below the finite x.
func Pred(x float64) float64 { return -Succ(-x) }

// Ulp is the distance from |x| to the next larger double (x finite).
func Ulp(x float64) float64 {
	a := absf(x)
	return Succ(a) - a
}

// IsNormal reports whether x is finite, nonzero and not subnormal.
func IsNormal(x float64) bool { return finite(x) && absf(x) >= MinNorm }
