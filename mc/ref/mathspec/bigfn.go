package mathspec

import (
	"math"
	"math/big"
)

// High-precision references for exp, log and pow (x > 0), used only on the
// overflow / underflow neighbourhoods where the tolerance laws of the check have
// nothing to hold on to. Plain series in 320-bit big.Float arithmetic:
//
//	ln 2   = 2 atanh(1/3)
//	exp x  = 2^k * sum r^n/n!            with r = x - k ln 2, |r| <= 0.35
//	log x  = e ln 2 + 2 atanh((m-1)/(m+1)) with x = m 2^e, m in [0.707, 1.415)
//	x^y    = exp(y log x)
//
// The results are rounded once to float64 (big.Float.Float64: round to nearest
// even, gradual underflow, overflow to Inf), so they are the correctly rounded
// values except on near-ties nobody can hit at 320 bits.

const bigPrec = 320

func bf(x float64) *big.Float { return new(big.Float).SetPrec(bigPrec).SetFloat64(x) }
func bnew() *big.Float        { return new(big.Float).SetPrec(bigPrec) }

// atanhSeries returns atanh(z) for |z| <= 0.35.
func atanhSeries(z *big.Float) *big.Float {
	z2 := bnew().Mul(z, z)
	term := bnew().Set(z)
	sum := bnew().Set(z)
	eps := bnew().SetMantExp(big.NewFloat(1), -bigPrec-8)
	for k := int64(3); ; k += 2 {
		term.Mul(term, z2)
		t := bnew().Quo(term, bnew().SetInt64(k))
		sum.Add(sum, t)
		if bnew().Abs(t).Cmp(eps) < 0 {
			return sum
		}
	}
}

var bigLn2 = func() *big.Float {
	third := bnew().Quo(bf(1), bf(3))
	return bnew().Mul(bf(2), atanhSeries(third))
}()

// BigExp returns e^x for a big x.
func BigExp(x *big.Float) *big.Float {
	xf, _ := x.Float64()
	if xf > 800 {
		return bnew().SetInf(false)
	}
	if xf < -800 {
		return bnew()
	}
	k := int(math.Floor(xf/0.6931471805599453 + 0.5))
	r := bnew().Sub(x, bnew().Mul(bnew().SetInt64(int64(k)), bigLn2))
	term := bf(1)
	sum := bf(1)
	eps := bnew().SetMantExp(big.NewFloat(1), -bigPrec-8)
	for n := int64(1); ; n++ {
		term.Mul(term, r)
		term.Quo(term, bnew().SetInt64(n))
		sum.Add(sum, term)
		if bnew().Abs(term).Cmp(eps) < 0 {
			break
		}
	}
	return bnew().SetMantExp(sum, k)
}

// BigLog returns ln x for x > 0.
func BigLog(x *big.Float) *big.Float {
	if x.Sign() <= 0 {
		return bnew().SetInf(true) // ln 0 = -Inf; negative arguments are the callers' business (table: NaN)
	}
	m := bnew()
	e := x.MantExp(m) // x = m * 2^e, 0.5 <= m < 1
	if m.Cmp(bf(0.7071067811865476)) < 0 {
		m.Mul(m, bf(2))
		e--
	}
	z := bnew().Quo(bnew().Sub(m, bf(1)), bnew().Add(m, bf(1)))
	l := bnew().Mul(bf(2), atanhSeries(z))
	return l.Add(l, bnew().Mul(bnew().SetInt64(int64(e)), bigLn2))
}

// RefExp, RefLog, RefPow: the correctly rounded double of the mathematical value.
func RefExp(x float64) float64 { f, _ := BigExp(bf(x)).Float64(); return f }

// RefLog needs x > 0 finite.
func RefLog(x float64) float64 { f, _ := BigLog(bf(x)).Float64(); return f }

// RefPow needs x > 0 finite, y finite.
func RefPow(x, y float64) float64 {
	f, _ := BigExp(bnew().Mul(bf(y), BigLog(bf(x)))).Float64()
	return f
}
