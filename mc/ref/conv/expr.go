package conv

// Expression-level evaluation order (11.x "The production ... is evaluated as
// follows"): operands are expressions whose evaluation and GetValue have
// observable side effects.

// Form is the syntactic form of an operand expression.
type Form uint8

const (
	FormArg        Form = iota // a local variable: no side effect
	FormCall                   // l()      : logs "<label>()" when evaluated
	FormGetter                 // o.l      : accessor property; GetValue logs "get <label>", PutValue logs "set <label>"
	FormCallGetter             // lo().l   : logs "<label>o()" when evaluated, then as FormGetter
)

// Operand is an operand expression together with the value it produces.
type Operand struct {
	Form  Form
	Label string
	V     Value
}

// evalRef evaluates the operand expression to a Reference (side effects of
// evaluating sub-expressions happen here).
func (c *Ctx) evalRef(o Operand) {
	switch o.Form {
	case FormCall:
		c.log(o.Label + "()")
	case FormCallGetter:
		c.log(o.Label + "o()")
	}
}

// getValue is GetValue (8.7.1) on the operand's Reference.
func (c *Ctx) getValue(o Operand) Value {
	switch o.Form {
	case FormGetter, FormCallGetter:
		c.log("get " + o.Label)
	}
	return o.V
}

// putValue is PutValue (8.7.2).
func (c *Ctx) putValue(o Operand) {
	switch o.Form {
	case FormGetter, FormCallGetter:
		c.log("set " + o.Label)
	}
}

// EvalBinary evaluates `l op r` (11.5-11.11, 11.14).
func (c *Ctx) EvalBinary(op string, l, r Operand) (Value, *Thrown) {
	c.evalRef(l)
	lv := c.getValue(l)
	switch op {
	case "&&": // 11.11: the right operand is evaluated only if needed
		if !ToBoolean(lv) {
			return lv, nil
		}
		c.evalRef(r)
		return c.getValue(r), nil
	case "||":
		if ToBoolean(lv) {
			return lv, nil
		}
		c.evalRef(r)
		return c.getValue(r), nil
	}
	c.evalRef(r)
	if op == "+" && c.Q.PlusLeftFirst {
		pl, th := c.ToPrimitive(lv, NoHint)
		if th != nil {
			return Value{}, th
		}
		rv := c.getValue(r)
		return c.Binary("+", pl, rv)
	}
	rv := c.getValue(r)
	return c.Binary(op, lv, rv)
}

// EvalCompound evaluates `l op= r` (11.13.2). It returns the value of the
// expression, which is also the value stored by PutValue.
func (c *Ctx) EvalCompound(op string, l, r Operand) (Value, *Thrown) {
	c.evalRef(l)
	var lv Value
	if !c.Q.CompoundLateLeft {
		lv = c.getValue(l)
	}
	c.evalRef(r)
	rv := c.getValue(r)
	if c.Q.CompoundLateLeft {
		lv = c.getValue(l)
	}
	res, th := c.Binary(op, lv, rv)
	if th != nil {
		return Value{}, th
	}
	c.putValue(l)
	return res, nil
}

// EvalConditional evaluates `t ? x : y` (11.12).
func (c *Ctx) EvalConditional(t, x, y Operand) Value {
	c.evalRef(t)
	if ToBoolean(c.getValue(t)) {
		c.evalRef(x)
		return c.getValue(x)
	}
	c.evalRef(y)
	return c.getValue(y)
}
