package conv

import (
	"math"
	"strconv"
)

// Kind is the ES5 type of a Value (8).
type Kind uint8

const (
	Undefined Kind = iota
	Null
	Bool
	Number
	String
	Object
)

// Value is an ES5 language value of the model universe.
type Value struct {
	K Kind
	B bool
	N float64
	S string // well-formed text; compared as UTF-16 code units
	O *Obj
	// IntText is set for a Number that the implementation carries in an integer
	// representation: the exact decimal digits of that integer. ES5 never looks at
	// it (a Number is the double N); only Quirks.ExactIntString does.
	IntText string
}

func Undef() Value           { return Value{K: Undefined} }
func Nul() Value             { return Value{K: Null} }
func Boolean(b bool) Value   { return Value{K: Bool, B: b} }
func Num(f float64) Value    { return Value{K: Number, N: f} }
func Str(s string) Value     { return Value{K: String, S: s} }
func ObjectOf(o *Obj) Value  { return Value{K: Object, O: o} }
func (v Value) IsPrim() bool { return v.K != Object }

// Ret is what a scripted valueOf/toString property does.
type Ret uint8

const (
	Inherit     Ret = iota // no own property: the built-in of the object's class runs (no log entry)
	Absent                 // own property with value undefined (not callable, skipped by 8.12.8)
	NonCallable            // own property with value 1 (not callable, skipped)
	RetPrim                // logs, returns the primitive Method.V
	RetObj                 // logs, returns an object (8.12.8 moves on)
	Throws                 // logs, throws a user exception (class UserThrow)
)

// Effect is what the body of a scripted method does to the object's conversion
// methods before it returns (the methods are re-read by 8.12.8 only when reached).
type Effect uint8

const (
	EffNone          Effect = iota
	EffReplaceOther         // own data property for the other method: a function returning "late" (label "*")
	EffDeleteOther          // delete the own property of the other method (the prototype's / built-in shows through)
	EffUndefOther           // the other method becomes an own data property with value undefined
	EffAccessorOther        // the other method becomes an own accessor whose logging getter returns a function returning "late"
	EffReplaceSelf          // as EffReplaceOther, on the method that is running
	EffDeleteSelf           // as EffDeleteOther, on the method that is running
)

// Method is a scripted conversion method: the property slot ("valueOf" or
// "toString", own or on the prototype) and what its value does.
type Method struct {
	R Ret
	V Value // RetPrim only
	// Acc: the slot is an accessor property; its getter logs "<id>.get <name><label>" and
	// returns the function described by R (or undefined / 1 for Absent / NonCallable).
	Acc bool
	// GetThrows: the getter throws a user exception (Acc only).
	GetThrows bool
	Eff       Effect
	Label     string // suffix of the name in log entries ("@proto" for prototype slots, "*" for replacements)
}

func (m Method) present() bool { return m.R != Inherit || m.Acc }

// UserThrow is the error class scripted methods throw.
const UserThrow = "EvalError"

// Obj is an object of the model universe. Only what sections 9 and 11 can
// observe is modelled: class, callability, conversion methods, a fixed set of
// property names (for `in`), the prototype chain (for instanceof).
type Obj struct {
	ID       string // label used in the coercion log and as identity in results
	Class    string // [[Class]]: Object, Date, Array, Function, Number, String, Boolean
	Callable bool
	ValueOf  Method
	ToString Method
	// ProtoValueOf / ProtoToString: the slots on the object's prototype, consulted when
	// the object has no own property of that name (zero value: the built-in of the class).
	ProtoValueOf  Method
	ProtoToString Method
	// Built-in conversion results for Inherit methods:
	//   Object.prototype.valueOf returns the object itself (modelled directly);
	//   wrappers: Prim is the [[PrimitiveValue]]; BuiltinStr is what the class's toString returns.
	Prim       *Value
	BuiltinStr string
	UnknownStr bool            // the built-in toString returns implementation-defined text (sets Ctx.Unknown when reached)
	NoBuiltin  bool            // no built-in valueOf/toString is reachable (prototype chain ends in null before Object.prototype)
	Names      map[string]bool // [[HasProperty]] = Names[name] (own and inherited names the check set up)
	Proto      *Obj            // [[Prototype]] as far as instanceof can see
	// functions:
	PrototypeProp *Value // value of the "prototype" property
	BoundTarget   *Obj   // 15.3.4.5: bound function
}

// Thrown describes an abrupt completion of the model: the class of the thrown
// Error object.
type Thrown struct{ Class string }

func typeError() *Thrown { return &Thrown{Class: "TypeError"} }

// Quirks switches on alternative (non-ES5) behaviours; the zero value is ES5.
// They exist only so that known-finding signatures can be stated as
// "observed equals the model run with exactly this deviation".
type Quirks struct {
	// Int32ViaInt64: ToInt32/ToUint32/ToUint16 compute int64(x) first; for finite
	// |trunc(x)| >= 2^63 that conversion yields 0x8000000000000000 whose low bits are 0.
	Int32ViaInt64 bool
	// StrconvNumber: after trimming, strings are handed to strconv: texts without "0x"
	// prefix or containing '.' go to ParseFloat (accepts inf/infinity/nan spellings in any
	// case, hex floats with p exponent, underscores only with base prefix), others to
	// ParseInt(s, 0, 64) (accepts underscores, fails on values >= 2^63).
	StrconvNumber bool
	// ExactIntString: numbers carried in a Go integer kind print their exact integer digits.
	ExactIntString bool
	// PlusLeftFirst: `+` applies ToPrimitive to the left operand before GetValue of the right operand.
	PlusLeftFirst bool
	// CompoundLateLeft: `lhs op= rhs` performs GetValue(lhs) after evaluating rhs and GetValue(rhs).
	CompoundLateLeft bool
	// StringLessByCodePoint: the string branch of 11.8.5 compares UTF-8 bytes (= code point order)
	// instead of UTF-16 code units.
	StringLessByCodePoint bool
	// BoundOwnPrototype: a bound function answers instanceof with its own fresh `prototype`
	// object instead of delegating [[HasInstance]] to its target (15.3.4.5.3).
	BoundOwnPrototype bool
	// StringIndexParseInt: String objects resolve index property names with strconv.ParseInt,
	// so non-canonical spellings ("-0", "+1", "01") name an index property.
	StringIndexParseInt bool
	// LoneSurrogateFFFD: whenever an operator or conversion takes the text of a String
	// operand, every lone surrogate code unit has become U+FFFD (strings are decoded to
	// UTF-8). Operators that hand an operand through unconverted (&&, ||, comma, ?:) are not affected.
	LoneSurrogateFFFD bool
}

// Ctx carries the coercion log of one evaluation.
type Ctx struct {
	Log []string
	Q   Quirks
	// Unknown is set when the evaluation used implementation-defined text.
	Unknown bool
	// IntCarrier: exact integer texts for operands carried in Go integer kinds
	// (only consulted under Quirks.ExactIntString); keyed by the operand position "a"/"b".
	fresh int
}

func (c *Ctx) log(s string) { c.Log = append(c.Log, s) }

func (o *Obj) own(name string) *Method {
	if name == "valueOf" {
		return &o.ValueOf
	}
	return &o.ToString
}

func other(name string) string {
	if name == "valueOf" {
		return "toString"
	}
	return "valueOf"
}

// invoke is one step of 8.12.8: [[Get]] of the named method (own property, else the
// prototype's, else the built-in), then, if it is callable, [[Call]] with the object
// as this. Returns (result, thrown, ran).
func (c *Ctx) invoke(o *Obj, name string) (Value, *Thrown, bool) {
	m := *o.own(name)
	if !m.present() {
		if name == "valueOf" {
			m = o.ProtoValueOf
		} else {
			m = o.ProtoToString
		}
	}
	if m.Acc {
		c.log(o.ID + ".get " + name + m.Label)
		if m.GetThrows {
			return Value{}, &Thrown{Class: UserThrow}, true
		}
	}
	switch m.R {
	case Absent, NonCallable:
		return Value{}, nil, false
	case RetPrim, RetObj, Throws:
		c.log(o.ID + "." + name + m.Label)
		late := Method{R: RetPrim, V: Str("late"), Label: "*"}
		switch m.Eff {
		case EffReplaceOther:
			*o.own(other(name)) = late
		case EffDeleteOther:
			*o.own(other(name)) = Method{}
		case EffUndefOther:
			*o.own(other(name)) = Method{R: Absent}
		case EffAccessorOther:
			late.Acc = true
			*o.own(other(name)) = late
		case EffReplaceSelf:
			*o.own(name) = late
		case EffDeleteSelf:
			*o.own(name) = Method{}
		}
		switch m.R {
		case RetPrim:
			return m.V, nil, true
		case RetObj:
			c.fresh++
			return ObjectOf(&Obj{ID: "fresh" + strconv.Itoa(c.fresh), Class: "Object"}), nil, true
		}
		return Value{}, &Thrown{Class: UserThrow}, true
	}
	// no scripted slot anywhere: built-in behaviour, nothing logged
	if o.NoBuiltin {
		return Value{}, nil, false
	}
	if name == "toString" && o.UnknownStr {
		c.Unknown = true
	}
	if name == "valueOf" {
		if o.Prim != nil {
			return *o.Prim, nil, true
		}
		return ObjectOf(o), nil, true // Object.prototype.valueOf: ToObject(this)
	}
	return Str(o.BuiltinStr), nil, true
}

// Hint of ToPrimitive / [[DefaultValue]].
type Hint uint8

const (
	NoHint Hint = iota
	HintString
	HintNumber
)

// DefaultValue is [[DefaultValue]] (8.12.8).
func (c *Ctx) DefaultValue(o *Obj, hint Hint) (Value, *Thrown) {
	if hint == NoHint {
		// "unless O is a Date object, in which case it behaves as if the hint were String"
		if o.Class == "Date" {
			hint = HintString
		} else {
			hint = HintNumber
		}
	}
	seq := [2]string{"valueOf", "toString"}
	if hint == HintString {
		seq = [2]string{"toString", "valueOf"}
	}
	for _, name := range seq {
		// steps 1-2 / 3-4: Get, IsCallable, Call — the second method is read only when reached
		v, th, ran := c.invoke(o, name)
		if th != nil {
			return Value{}, th
		}
		if ran && v.IsPrim() {
			return v, nil
		}
	}
	return Value{}, typeError()
}

// ToPrimitive (9.1).
func (c *Ctx) ToPrimitive(v Value, hint Hint) (Value, *Thrown) {
	if v.K != Object {
		return v, nil
	}
	return c.DefaultValue(v.O, hint)
}

// ToBoolean (9.2).
func ToBoolean(v Value) bool {
	switch v.K {
	case Undefined, Null:
		return false
	case Bool:
		return v.B
	case Number:
		return !(v.N == 0 || math.IsNaN(v.N))
	case String:
		return v.S != ""
	}
	return true
}

// ToNumber (9.3).
func (c *Ctx) ToNumber(v Value) (float64, *Thrown) {
	switch v.K {
	case Undefined:
		return math.NaN(), nil
	case Null:
		return 0, nil
	case Bool:
		if v.B {
			return 1, nil
		}
		return 0, nil
	case Number:
		return v.N, nil
	case String:
		if c.Q.StrconvNumber {
			return strconvNumber(v.S), nil
		}
		return StringToNumber(v.S), nil
	}
	p, th := c.ToPrimitive(v, HintNumber)
	if th != nil {
		return 0, th
	}
	return c.ToNumber(p)
}

// ToString (9.8).
func (c *Ctx) ToString(v Value) (string, *Thrown) {
	switch v.K {
	case Undefined:
		return "undefined", nil
	case Null:
		return "null", nil
	case Bool:
		if v.B {
			return "true", nil
		}
		return "false", nil
	case Number:
		if c.Q.ExactIntString && v.IntText != "" {
			return v.IntText, nil
		}
		return NumberToString(v.N), nil
	case String:
		if c.Q.LoneSurrogateFFFD {
			return replaceLone(v.S), nil
		}
		return v.S, nil
	}
	p, th := c.ToPrimitive(v, HintString)
	if th != nil {
		return "", th
	}
	return c.ToString(p)
}

func (c *Ctx) toInt32(x float64) int32 {
	if c.Q.Int32ViaInt64 && beyondInt64(x) {
		return 0
	}
	return ToInt32F(x)
}

func (c *Ctx) toUint32(x float64) uint32 {
	if c.Q.Int32ViaInt64 && beyondInt64(x) {
		return 0
	}
	return ToUint32F(x)
}

// ToUint16Q is ToUint16 under the context's quirks.
func (c *Ctx) ToUint16Q(x float64) uint16 {
	if c.Q.Int32ViaInt64 && beyondInt64(x) {
		return 0
	}
	return ToUint16F(x)
}

// ToInt32Q / ToUint32Q: ToInt32 / ToUint32 under the context's quirks.
func (c *Ctx) ToInt32Q(x float64) int32   { return c.toInt32(x) }
func (c *Ctx) ToUint32Q(x float64) uint32 { return c.toUint32(x) }

// beyondInt64: finite and trunc(x) outside [-2^63, 2^63).
func beyondInt64(x float64) bool {
	if math.IsNaN(x) || math.IsInf(x, 0) {
		return false
	}
	return x >= 9223372036854775808.0 || x < -9223372036854775808.0
}

// stringLess is the string branch of 11.8.5 step 4: lexicographic on code units.
func stringLess(a, b string) bool {
	x, y := Units(a), Units(b)
	for i := 0; i < len(x) && i < len(y); i++ {
		if x[i] != y[i] {
			return x[i] < y[i]
		}
	}
	return len(x) < len(y)
}
