// Package conv is the reference model of ES5.1 section 9 (type conversion) and
// section 11 (operators) used by check C05. It is a direct transcription of the
// clauses it names, over a small value universe: primitives plus objects whose
// valueOf/toString behaviour is scripted (so that [[DefaultValue]] and its
// observable call order can be modelled without an interpreter).
//
// Number <-> text: the StringNumericLiteral grammar (9.3.1) is recognised by a
// hand-written recogniser; only after a text has been validated is
// strconv.ParseFloat used for the correctly rounded value of the decimal digits.
// ToString(Number) (9.8.1) takes the shortest round-tripping digits from
// strconv.FormatFloat('e', -1) and lays them out by the five cases of 9.8.1.
package conv

import (
	"math"
	"math/big"
	"strconv"
	"strings"
)

// IsStrWhiteSpaceChar reports whether r is a StrWhiteSpaceChar (9.3.1):
// WhiteSpace (7.2: TAB VT FF SP NBSP BOM and any Unicode Zs) or LineTerminator
// (7.3: LF CR LS PS). Zs is the Unicode 3.0+ category; U+180E was Zs up to
// Unicode 6.2 and is accepted either way (never enumerated by the check).
func IsStrWhiteSpaceChar(r rune) bool {
	switch r {
	case 0x09, 0x0B, 0x0C, 0x20, 0xA0, 0xFEFF:
		return true
	case 0x0A, 0x0D, 0x2028, 0x2029:
		return true
	case 0x1680, 0x180E, 0x202F, 0x205F, 0x3000:
		return true
	}
	return r >= 0x2000 && r <= 0x200A
}

func isDigit(c byte) bool { return c >= '0' && c <= '9' }

func isHexDigit(c byte) bool {
	return isDigit(c) || (c >= 'a' && c <= 'f') || (c >= 'A' && c <= 'F')
}

// scanDigits returns the index after a run of decimal digits starting at i.
func scanDigits(s string, i int) int {
	for i < len(s) && isDigit(s[i]) {
		i++
	}
	return i
}

// StringToNumber is ToNumber applied to the String type (9.3.1).
func StringToNumber(in string) float64 {
	// StrWhiteSpace_opt StrNumericLiteral_opt StrWhiteSpace_opt
	rs := []rune(in)
	a, b := 0, len(rs)
	for a < b && IsStrWhiteSpaceChar(rs[a]) {
		a++
	}
	for b > a && IsStrWhiteSpaceChar(rs[b-1]) {
		b--
	}
	for _, r := range rs[a:b] {
		if r >= 0x80 {
			return math.NaN() // no production of StrNumericLiteral contains a non-ASCII character
		}
	}
	s := string(rs[a:b])
	if s == "" {
		return 0 // "the MV of StringNumericLiteral ::: [empty] is 0"
	}
	// HexIntegerLiteral ::: 0x HexDigit+ | 0X HexDigit+   (unsigned)
	if len(s) >= 2 && s[0] == '0' && (s[1] == 'x' || s[1] == 'X') {
		if len(s) == 2 {
			return math.NaN()
		}
		for i := 2; i < len(s); i++ {
			if !isHexDigit(s[i]) {
				return math.NaN()
			}
		}
		n, ok := new(big.Int).SetString(s[2:], 16)
		if !ok {
			return math.NaN()
		}
		f, _ := new(big.Float).SetPrec(0).SetInt(n).Float64() // exact int, one rounding (to nearest even)
		return f
	}
	// StrDecimalLiteral ::: [+-]? StrUnsignedDecimalLiteral
	i := 0
	neg := false
	if s[0] == '+' || s[0] == '-' {
		neg = s[0] == '-'
		i = 1
	}
	body := s[i:]
	if body == "Infinity" {
		if neg {
			return math.Inf(-1)
		}
		return math.Inf(1)
	}
	// DecimalDigits . DecimalDigits_opt ExponentPart_opt | . DecimalDigits ExponentPart_opt | DecimalDigits ExponentPart_opt
	j := scanDigits(body, 0)
	intDigits := j
	fracDigits := 0
	if j < len(body) && body[j] == '.' {
		k := scanDigits(body, j+1)
		fracDigits = k - (j + 1)
		j = k
	}
	if intDigits == 0 && fracDigits == 0 {
		return math.NaN()
	}
	if j < len(body) && (body[j] == 'e' || body[j] == 'E') {
		j++
		if j < len(body) && (body[j] == '+' || body[j] == '-') {
			j++
		}
		k := scanDigits(body, j)
		if k == j {
			return math.NaN()
		}
		j = k
	}
	if j != len(body) {
		return math.NaN()
	}
	// the text is now a plain decimal literal: digits, at most one '.', optional exponent
	f, err := strconv.ParseFloat(body, 64)
	if err != nil {
		if ne, ok := err.(*strconv.NumError); !ok || ne.Err != strconv.ErrRange {
			panic("conv: validated decimal literal rejected by ParseFloat: " + body)
		}
		// ErrRange: f is +Inf (overflow) or 0 (underflow) — the rounded MV
	}
	if neg {
		f = -f
	}
	return f
}

// NumberToString is ToString applied to the Number type (9.8.1).
func NumberToString(m float64) string {
	switch {
	case math.IsNaN(m):
		return "NaN"
	case m == 0:
		return "0"
	case m < 0:
		return "-" + NumberToString(-m)
	case math.IsInf(m, 1):
		return "Infinity"
	}
	// n, k, s: k as small as possible, s*10^(n-k) = m. Shortest digits via strconv ('e', -1):
	// d[.ddd]e±xx  =>  digits, n = exponent+1
	e := strconv.FormatFloat(m, 'e', -1, 64)
	ei := strings.IndexByte(e, 'e')
	mant, exps := e[:ei], e[ei+1:]
	digits := strings.Replace(mant, ".", "", 1)
	x, err := strconv.Atoi(exps)
	if err != nil {
		panic("conv: bad exponent " + e)
	}
	k, n := len(digits), x+1
	switch {
	case k <= n && n <= 21:
		return digits + strings.Repeat("0", n-k)
	case 0 < n && n <= 21:
		return digits[:n] + "." + digits[n:]
	case -6 < n && n <= 0:
		return "0." + strings.Repeat("0", -n) + digits
	}
	sign := "+"
	ex := n - 1
	if ex < 0 {
		sign = "-"
		ex = -ex
	}
	if k == 1 {
		return digits + "e" + sign + strconv.Itoa(ex)
	}
	return digits[:1] + "." + digits[1:] + "e" + sign + strconv.Itoa(ex)
}

// ToIntegerF is ToInteger (9.4) on a Number.
func ToIntegerF(x float64) float64 {
	switch {
	case math.IsNaN(x):
		return 0
	case x == 0 || math.IsInf(x, 0):
		return x
	}
	return math.Trunc(x) // sign(x) * floor(abs(x))
}

// modPow2 returns sign(x)*floor(abs(x)) modulo 2^bits as a non-negative integer,
// computed on the binary representation (exact for every finite double,
// including |x| >= 2^63 where Go's float->int conversions are undefined).
func modPow2(x float64, bits uint) uint64 {
	if math.IsNaN(x) || math.IsInf(x, 0) || x == 0 {
		return 0
	}
	b := math.Float64bits(x)
	neg := b>>63 != 0
	exp := int((b >> 52) & 0x7ff)
	man := b & (1<<52 - 1)
	if exp == 0 {
		return 0 // subnormal: |x| < 1
	}
	man |= 1 << 52
	sh := exp - 1075 // x = man * 2^sh
	mask := uint64(1)<<bits - 1
	var r uint64
	switch {
	case sh >= int(bits):
		r = 0
	case sh >= 0:
		r = ((man & mask) << uint(sh)) & mask
	case sh > -64:
		r = (man >> uint(-sh)) & mask // floor(abs(x))
	default:
		r = 0
	}
	if neg && r != 0 {
		r = (mask + 1) - r
	}
	return r
}

// ToUint32F is ToUint32 (9.6) on a Number.
func ToUint32F(x float64) uint32 { return uint32(modPow2(x, 32)) }

// ToInt32F is ToInt32 (9.5) on a Number.
func ToInt32F(x float64) int32 {
	r := modPow2(x, 32)
	if r >= 1<<31 {
		return int32(int64(r) - (1 << 32))
	}
	return int32(r)
}

// ToUint16F is ToUint16 (9.7) on a Number.
func ToUint16F(x float64) uint16 { return uint16(modPow2(x, 16)) }

// Remainder is the % operator on Numbers (11.5.3): the special cases of the
// clause, then r = n - d*q with q = trunc(n/d) computed exactly in rational
// arithmetic (the result of a floating-point remainder is always exact).
func Remainder(n, d float64) float64 {
	switch {
	case math.IsNaN(n) || math.IsNaN(d):
		return math.NaN()
	case math.IsInf(n, 0) || d == 0:
		return math.NaN()
	case math.IsInf(d, 0):
		return n
	case n == 0:
		return n
	}
	rn := new(big.Rat).SetFloat64(n)
	rd := new(big.Rat).SetFloat64(d)
	q := new(big.Rat).Quo(rn, rd)
	qi := new(big.Int).Quo(q.Num(), q.Denom()) // truncated toward zero
	r := new(big.Rat).Sub(rn, new(big.Rat).Mul(rd, new(big.Rat).SetInt(qi)))
	f, exact := r.Float64()
	if !exact {
		panic("conv: inexact remainder")
	}
	if f == 0 {
		// "the sign of the result equals the sign of the dividend"
		return math.Copysign(0, n)
	}
	return f
}
