package conv

import (
	"errors"
	"math"
	"strconv"
	"strings"
)

// strconvNumber is the alternative model for Quirks.StrconvNumber: ToNumber(String)
// as "trim StrWhiteSpace, then let Go's strconv decide".
func strconvNumber(in string) float64 {
	s := strings.TrimFunc(in, IsStrWhiteSpaceChar)
	if s == "" {
		return 0
	}
	hexPrefix := len(s) >= 2 && s[0] == '0' && (s[1] == 'x' || s[1] == 'X')
	if strings.ContainsRune(s, '.') || !hexPrefix {
		f, err := strconv.ParseFloat(s, 64)
		if err != nil && !errors.Is(err, strconv.ErrRange) {
			return math.NaN()
		}
		return f
	}
	n, err := strconv.ParseInt(s, 0, 64)
	if err != nil {
		return math.NaN()
	}
	return float64(n)
}

// BinaryOps lists the binary operators of section 11 the model implements.
var BinaryOps = []string{
	"+", "-", "*", "/", "%",
	"<<", ">>", ">>>",
	"&", "|", "^",
	"==", "!=", "===", "!==",
	"<", ">", "<=", ">=",
	"in", "instanceof",
	"&&", "||", ",",
}

// UnaryOps lists the unary operators (11.4; ++/-- in prefix form, postfix forms are "p++", "p--").
var UnaryOps = []string{"+", "-", "~", "!", "typeof", "void", "++", "--", "delete", "p++", "p--"}

// Less is the abstract relational comparison x < y (11.8.5). It returns
// (result, undefined, thrown): undefined=true is the "undefined" outcome.
func (c *Ctx) Less(x, y Value, leftFirst bool) (bool, bool, *Thrown) {
	var px, py Value
	var th *Thrown
	if leftFirst {
		if px, th = c.ToPrimitive(x, HintNumber); th != nil {
			return false, false, th
		}
		if py, th = c.ToPrimitive(y, HintNumber); th != nil {
			return false, false, th
		}
	} else {
		if py, th = c.ToPrimitive(y, HintNumber); th != nil {
			return false, false, th
		}
		if px, th = c.ToPrimitive(x, HintNumber); th != nil {
			return false, false, th
		}
	}
	if !(px.K == String && py.K == String) {
		nx, _ := c.ToNumber(px)
		ny, _ := c.ToNumber(py)
		if math.IsNaN(nx) || math.IsNaN(ny) {
			return false, true, nil
		}
		return nx < ny, false, nil
	}
	if c.Q.StringLessByCodePoint {
		return px.S < py.S, false, nil
	}
	return stringLess(px.S, py.S), false, nil
}

// StrictEquals is 11.9.6.
func StrictEquals(x, y Value) bool {
	if x.K != y.K {
		return false
	}
	switch x.K {
	case Undefined, Null:
		return true
	case Number:
		return x.N == y.N // NaN != NaN, +0 == -0 by IEEE comparison
	case String:
		return x.S == y.S
	case Bool:
		return x.B == y.B
	}
	return x.O == y.O
}

// Equals is the abstract equality comparison (11.9.3).
func (c *Ctx) Equals(x, y Value) (bool, *Thrown) {
	if x.K == y.K {
		return StrictEquals(x, y), nil
	}
	nullish := func(v Value) bool { return v.K == Undefined || v.K == Null }
	switch {
	case nullish(x) && nullish(y):
		return true, nil
	case x.K == Number && y.K == String:
		n, _ := c.ToNumber(y)
		return c.Equals(x, Num(n))
	case x.K == String && y.K == Number:
		n, _ := c.ToNumber(x)
		return c.Equals(Num(n), y)
	case x.K == Bool:
		n, _ := c.ToNumber(x)
		return c.Equals(Num(n), y)
	case y.K == Bool:
		n, _ := c.ToNumber(y)
		return c.Equals(x, Num(n))
	case (x.K == String || x.K == Number) && y.K == Object:
		p, th := c.ToPrimitive(y, NoHint)
		if th != nil {
			return false, th
		}
		return c.Equals(x, p)
	case x.K == Object && (y.K == String || y.K == Number):
		p, th := c.ToPrimitive(x, NoHint)
		if th != nil {
			return false, th
		}
		return c.Equals(p, y)
	}
	return false, nil
}

// hasInstance is [[HasInstance]] (15.3.5.3, 15.3.4.5.3).
func (c *Ctx) hasInstance(f *Obj, v Value) (bool, *Thrown) {
	if c.Q.BoundOwnPrototype && f.BoundTarget != nil {
		// the bound function has a fresh `prototype` object of its own that nothing inherits from
		return false, nil
	}
	for f.BoundTarget != nil {
		f = f.BoundTarget
	}
	if v.K != Object {
		return false, nil
	}
	if f.PrototypeProp == nil || f.PrototypeProp.K != Object {
		return false, typeError()
	}
	o := f.PrototypeProp.O
	for p := v.O.Proto; p != nil; p = p.Proto {
		if p == o {
			return true, nil
		}
	}
	return false, nil
}

// Binary applies a binary operator of section 11 to two already evaluated
// operand values (GetValue done). For && and || and "," the result is the
// selected operand, unconverted.
func (c *Ctx) Binary(op string, a, b Value) (Value, *Thrown) {
	if c.Q.LoneSurrogateFFFD && op != "&&" && op != "||" && op != "," {
		if a.K == String {
			a.S = replaceLone(a.S)
		}
		if b.K == String {
			b.S = replaceLone(b.S)
		}
	}
	switch op {
	case "+": // 11.6.1
		pa, th := c.ToPrimitive(a, NoHint)
		if th != nil {
			return Value{}, th
		}
		pb, th := c.ToPrimitive(b, NoHint)
		if th != nil {
			return Value{}, th
		}
		if pa.K == String || pb.K == String {
			sa, _ := c.ToString(pa)
			sb, _ := c.ToString(pb)
			return Str(Concat(sa, sb)), nil
		}
		na, _ := c.ToNumber(pa)
		nb, _ := c.ToNumber(pb)
		return Num(na + nb), nil
	case "-", "*", "/", "%": // 11.6.2, 11.5
		na, th := c.ToNumber(a)
		if th != nil {
			return Value{}, th
		}
		nb, th := c.ToNumber(b)
		if th != nil {
			return Value{}, th
		}
		switch op {
		case "-":
			return Num(na - nb), nil
		case "*":
			return Num(na * nb), nil
		case "/":
			return Num(na / nb), nil
		}
		return Num(Remainder(na, nb)), nil
	case "<<", ">>", ">>>", "&", "|", "^": // 11.7, 11.10
		na, th := c.ToNumber(a)
		if th != nil {
			return Value{}, th
		}
		nb, th := c.ToNumber(b)
		if th != nil {
			return Value{}, th
		}
		switch op {
		case "<<":
			return Num(float64(c.toInt32(na) << (c.toUint32(nb) & 0x1f))), nil
		case ">>":
			return Num(float64(c.toInt32(na) >> (c.toUint32(nb) & 0x1f))), nil
		case ">>>":
			return Num(float64(c.toUint32(na) >> (c.toUint32(nb) & 0x1f))), nil
		case "&":
			return Num(float64(c.toInt32(na) & c.toInt32(nb))), nil
		case "|":
			return Num(float64(c.toInt32(na) | c.toInt32(nb))), nil
		}
		return Num(float64(c.toInt32(na) ^ c.toInt32(nb))), nil
	case "==", "!=": // 11.9.1, 11.9.2
		r, th := c.Equals(a, b)
		if th != nil {
			return Value{}, th
		}
		return Boolean(r == (op == "==")), nil
	case "===":
		return Boolean(StrictEquals(a, b)), nil
	case "!==":
		return Boolean(!StrictEquals(a, b)), nil
	case "<": // 11.8.1
		r, u, th := c.Less(a, b, true)
		if th != nil {
			return Value{}, th
		}
		return Boolean(r && !u), nil
	case ">": // 11.8.2: r = (rval < lval) with LeftFirst false
		r, u, th := c.Less(b, a, false)
		if th != nil {
			return Value{}, th
		}
		return Boolean(r && !u), nil
	case "<=": // 11.8.3: r = (rval < lval) LeftFirst false; true or undefined -> false
		r, u, th := c.Less(b, a, false)
		if th != nil {
			return Value{}, th
		}
		return Boolean(!(r || u)), nil
	case ">=": // 11.8.4
		r, u, th := c.Less(a, b, true)
		if th != nil {
			return Value{}, th
		}
		return Boolean(!(r || u)), nil
	case "instanceof": // 11.8.6
		if b.K != Object {
			return Value{}, typeError()
		}
		if !b.O.Callable { // only function objects have [[HasInstance]]
			return Value{}, typeError()
		}
		r, th := c.hasInstance(b.O, a)
		if th != nil {
			return Value{}, th
		}
		return Boolean(r), nil
	case "in": // 11.8.7
		if b.K != Object {
			return Value{}, typeError()
		}
		s, th := c.ToString(a)
		if th != nil {
			return Value{}, th
		}
		return Boolean(c.HasProperty(b.O, s)), nil
	case "&&": // 11.11
		if !ToBoolean(a) {
			return a, nil
		}
		return b, nil
	case "||":
		if ToBoolean(a) {
			return a, nil
		}
		return b, nil
	case ",": // 11.14
		return b, nil
	}
	panic("conv: unknown binary operator " + op)
}

// HasProperty is [[HasProperty]] over the names the check set up.
func (c *Ctx) HasProperty(o *Obj, name string) bool {
	if o.Names[name] {
		return true
	}
	if c.Q.StringIndexParseInt && o.Class == "String" {
		// index properties of a String object found by strconv.ParseInt(name, 10, 64)
		// instead of the canonical-numeric-string test of 15.5.5.2
		if i, err := strconv.ParseInt(name, 10, 64); err == nil && i >= 0 {
			return o.Names[strconv.FormatInt(i, 10)] && name != "length"
		}
	}
	return false
}

// TypeOf is the typeof table (11.4.3).
func TypeOf(v Value) string {
	switch v.K {
	case Undefined:
		return "undefined"
	case Null:
		return "object"
	case Bool:
		return "boolean"
	case Number:
		return "number"
	case String:
		return "string"
	}
	if v.O.Callable {
		return "function"
	}
	return "object"
}

// Unary applies a unary operator to the value of a local variable holding a.
// It returns the expression's result and the variable's value afterwards
// (changed only by ++/--).
func (c *Ctx) Unary(op string, a Value) (res Value, after Value, th *Thrown) {
	after = a
	switch op {
	case "+": // 11.4.6
		n, th := c.ToNumber(a)
		if th != nil {
			return Value{}, a, th
		}
		return Num(n), a, nil
	case "-": // 11.4.7
		n, th := c.ToNumber(a)
		if th != nil {
			return Value{}, a, th
		}
		return Num(-n), a, nil
	case "~": // 11.4.8
		n, th := c.ToNumber(a)
		if th != nil {
			return Value{}, a, th
		}
		return Num(float64(^c.toInt32(n))), a, nil
	case "!": // 11.4.9
		return Boolean(!ToBoolean(a)), a, nil
	case "typeof":
		return Str(TypeOf(a)), a, nil
	case "void": // 11.4.2
		return Undef(), a, nil
	case "delete": // 11.4.1 on a function-code variable binding: not deletable
		return Boolean(false), a, nil
	case "++", "--", "p++", "p--": // 11.4.4, 11.4.5, 11.3.1, 11.3.2
		n, th := c.ToNumber(a)
		if th != nil {
			return Value{}, a, th
		}
		d := 1.0
		if op == "--" || op == "p--" {
			d = -1
		}
		nv := Num(n + d)
		if op[0] == 'p' {
			return Num(n), nv, nil
		}
		return nv, nv, nil
	}
	panic("conv: unknown unary operator " + op)
}
