package conv

import "unicode/utf8"

// Model strings are sequences of UTF-16 code units (8.4). They are stored in Go
// strings as generalised UTF-8: a surrogate pair is the 4-byte encoding of its
// code point, a LONE surrogate is the 3-byte encoding of its code unit value
// (bytes ED A0..BF xx). Always normalised (FromUnits), so Go == is code unit equality.

// Units returns the UTF-16 code units of a model string.
func Units(s string) []uint16 {
	out := make([]uint16, 0, len(s))
	for i := 0; i < len(s); {
		if s[i] == 0xED && i+2 < len(s) && s[i+1] >= 0xA0 && s[i+1] <= 0xBF && s[i+2]&0xC0 == 0x80 {
			out = append(out, 0xD000|uint16(s[i+1]&0x3F)<<6|uint16(s[i+2]&0x3F))
			i += 3
			continue
		}
		r, n := utf8.DecodeRuneInString(s[i:])
		i += n
		if r >= 0x10000 {
			r -= 0x10000
			out = append(out, 0xD800+uint16(r>>10), 0xDC00+uint16(r&0x3FF))
		} else {
			out = append(out, uint16(r))
		}
	}
	return out
}

func isLead(u uint16) bool  { return u >= 0xD800 && u <= 0xDBFF }
func isTrail(u uint16) bool { return u >= 0xDC00 && u <= 0xDFFF }

// FromUnits builds the normalised model string for a code unit sequence.
func FromUnits(u []uint16) string {
	b := make([]byte, 0, len(u)*3)
	for i := 0; i < len(u); i++ {
		c := u[i]
		switch {
		case isLead(c) && i+1 < len(u) && isTrail(u[i+1]):
			r := 0x10000 + (rune(c)-0xD800)<<10 + (rune(u[i+1]) - 0xDC00)
			b = utf8.AppendRune(b, r)
			i++
		case isLead(c) || isTrail(c):
			b = append(b, 0xED, 0x80|byte(c>>6&0x3F), 0x80|byte(c&0x3F)) // c>>6&0x3F is 0x20..0x3F for surrogates
		default:
			b = utf8.AppendRune(b, rune(c))
		}
	}
	return string(b)
}

// Concat concatenates two model strings (a trailing lead and a leading trail surrogate join into a pair).
func Concat(a, b string) string { return FromUnits(append(Units(a), Units(b)...)) }

// HasLoneSurrogate reports whether s contains a surrogate code unit that is not part of a pair.
func HasLoneSurrogate(s string) bool {
	u := Units(s)
	for i := 0; i < len(u); i++ {
		if isLead(u[i]) && i+1 < len(u) && isTrail(u[i+1]) {
			i++
		} else if isLead(u[i]) || isTrail(u[i]) {
			return true
		}
	}
	return false
}

// replaceLone is the alternative model of Quirks.LoneSurrogateFFFD: every lone surrogate becomes U+FFFD.
func replaceLone(s string) string {
	u := Units(s)
	for i := 0; i < len(u); i++ {
		if isLead(u[i]) && i+1 < len(u) && isTrail(u[i+1]) {
			i++
		} else if isLead(u[i]) || isTrail(u[i]) {
			u[i] = 0xFFFD
		}
	}
	return FromUnits(u)
}
