// Package bridge is the reference model shared by the C15 and C16 checks: the
// "natural JavaScript counterpart" of a Go value (a small tree of JS values), the
// ES5 conversions that the Go API promises to mirror (ToNumber of strings, ToInteger,
// Number::toString, ToBoolean), exact-representability tests for every Go numeric
// kind, and canonical renderings of Go values (type-exact and by-value) so that
// expected and observed sides can be compared as strings.
//
// Everything here is plain Go over math/strconv/reflect; nothing calls otto.
package bridge

import (
	"fmt"
	"math"
	"math/big"
	"reflect"
	"sort"
	"strconv"
	"strings"
	"unicode"
	"unicode/utf16"
	"unicode/utf8"
)

// ---------------------------------------------------------------------------
// JS value tree (the natural counterpart of a Go value / the data of a JS literal)

type Kind int

const (
	Undef Kind = iota
	Null
	Bool
	Num
	Str
	Arr
	Obj
	Hole // only inside Arr: an elided element
	Func // a function-valued property (methods of bridged structs)
)

// Node is a JS value as data.
type Node struct {
	K    Kind
	B    bool
	N    float64
	S    []uint16
	Elem []*Node
	Keys []string // Obj: keys in insertion order
	Vals map[string]*Node
}

func U() *Node             { return &Node{K: Undef} }
func NullN() *Node         { return &Node{K: Null} }
func B(b bool) *Node       { return &Node{K: Bool, B: b} }
func N(f float64) *Node    { return &Node{K: Num, N: f} }
func S(s string) *Node     { return &Node{K: Str, S: utf16.Encode([]rune(s))} }
func S16(u []uint16) *Node { return &Node{K: Str, S: u} }
func A(e ...*Node) *Node   { return &Node{K: Arr, Elem: e} }
func HoleN() *Node         { return &Node{K: Hole} }
func O(kv ...interface{}) *Node {
	n := &Node{K: Obj, Vals: map[string]*Node{}}
	for i := 0; i+1 < len(kv); i += 2 {
		k := kv[i].(string)
		if _, dup := n.Vals[k]; !dup {
			n.Keys = append(n.Keys, k)
		}
		n.Vals[k] = kv[i+1].(*Node)
	}
	return n
}

// Set adds or replaces a member of an Obj node.
func (n *Node) Set(k string, v *Node) {
	if _, dup := n.Vals[k]; !dup {
		n.Keys = append(n.Keys, k)
	}
	n.Vals[k] = v
}

// NumStr renders a float64 canonically (all NaNs equal, signed zeros distinct).
func NumStr(f float64) string {
	switch {
	case math.IsNaN(f):
		return "NaN"
	case f == 0 && math.Signbit(f):
		return "-0"
	case f == 0:
		return "0"
	case math.IsInf(f, 1):
		return "Infinity"
	case math.IsInf(f, -1):
		return "-Infinity"
	}
	return strconv.FormatFloat(f, 'g', 17, 64)
}

// StrCanon renders UTF-16 units: printable ASCII kept, the rest as \uXXXX.
func StrCanon(u []uint16) string {
	var sb strings.Builder
	sb.WriteByte('"')
	for _, c := range u {
		if c >= 0x20 && c < 0x7f && c != '\\' && c != '"' {
			sb.WriteByte(byte(c))
		} else {
			fmt.Fprintf(&sb, "\\u%04X", c)
		}
	}
	sb.WriteByte('"')
	return sb.String()
}

// Canon renders a node canonically. Object keys are sorted (ES5 leaves the
// enumeration order of bridged objects to the implementation; Go map order is random).
func (n *Node) Canon() string {
	var sb strings.Builder
	n.canon(&sb)
	return sb.String()
}

func (n *Node) canon(sb *strings.Builder) {
	switch n.K {
	case Undef:
		sb.WriteString("u")
	case Null:
		sb.WriteString("null")
	case Hole:
		sb.WriteString("<hole>")
	case Func:
		sb.WriteString("<func>")
	case Bool:
		if n.B {
			sb.WriteString("true")
		} else {
			sb.WriteString("false")
		}
	case Num:
		sb.WriteString(NumStr(n.N))
	case Str:
		sb.WriteString(StrCanon(n.S))
	case Arr:
		sb.WriteByte('[')
		for i, e := range n.Elem {
			if i > 0 {
				sb.WriteByte(',')
			}
			e.canon(sb)
		}
		sb.WriteByte(']')
	case Obj:
		keys := append([]string(nil), n.Keys...)
		sort.Strings(keys)
		sb.WriteByte('{')
		for i, k := range keys {
			if i > 0 {
				sb.WriteByte(',')
			}
			sb.WriteString(StrCanon(utf16.Encode([]rune(k))))
			sb.WriteByte(':')
			n.Vals[k].canon(sb)
		}
		sb.WriteByte('}')
	}
}

// JSONLike reports whether the node is JSON data: null, booleans, finite
// numbers, strings, arrays without holes/undefined, objects without undefined.
func (n *Node) JSONLike() bool {
	switch n.K {
	case Null, Bool, Str:
		return true
	case Num:
		return !math.IsNaN(n.N) && !math.IsInf(n.N, 0)
	case Arr:
		for _, e := range n.Elem {
			if !e.JSONLike() {
				return false
			}
		}
		return true
	case Obj:
		for _, k := range n.Keys {
			if !n.Vals[k].JSONLike() {
				return false
			}
		}
		return true
	}
	return false
}

// Source renders the node as ES5 source text (an expression) using only ASCII.
func (n *Node) Source() string {
	switch n.K {
	case Undef:
		return "undefined"
	case Null:
		return "null"
	case Hole:
		return ""
	case Bool:
		if n.B {
			return "true"
		}
		return "false"
	case Num:
		return JSNumSrc(n.N)
	case Str:
		return JSStrSrc(n.S)
	case Arr:
		parts := make([]string, len(n.Elem))
		for i, e := range n.Elem {
			parts[i] = e.Source()
		}
		s := "[" + strings.Join(parts, ",")
		if len(n.Elem) > 0 && n.Elem[len(n.Elem)-1].K == Hole {
			s += "," // a trailing hole needs one more comma
		}
		return s + "]"
	case Obj:
		parts := make([]string, len(n.Keys))
		for i, k := range n.Keys {
			parts[i] = JSStrSrc(utf16.Encode([]rune(k))) + ":" + n.Vals[k].Source()
		}
		return "({" + strings.Join(parts, ",") + "})"
	}
	return "undefined"
}

// JSNumSrc renders a float64 as a JS expression with exactly that value. The
// text always contains '.', 'e' or a name, so that the implementation's integer
// literal fast path cannot change the representation under test: callers that
// WANT an integer literal write it themselves.
func JSNumSrc(f float64) string {
	switch {
	case math.IsNaN(f):
		return "NaN"
	case math.IsInf(f, 1):
		return "Infinity"
	case math.IsInf(f, -1):
		return "-Infinity"
	case f == 0 && math.Signbit(f):
		return "-0"
	}
	if f == math.Trunc(f) && math.Abs(f) < 1e15 {
		return strconv.FormatFloat(f, 'f', -1, 64)
	}
	return strconv.FormatFloat(f, 'e', -1, 64)
}

// JSStrSrc renders UTF-16 units as a double-quoted JS literal: printable ASCII
// as is, BMP units as \uXXXX, well-formed surrogate pairs as the raw UTF-8
// character (the implementation's handling of surrogate ESCAPES in literals is
// another property's subject), lone surrogates as \uXXXX.
func JSStrSrc(u []uint16) string {
	var sb strings.Builder
	sb.WriteByte('"')
	for i := 0; i < len(u); i++ {
		c := u[i]
		switch {
		case c == '"' || c == '\\':
			sb.WriteByte('\\')
			sb.WriteByte(byte(c))
		case c >= 0x20 && c < 0x7f:
			sb.WriteByte(byte(c))
		case c >= 0xD800 && c < 0xDC00 && i+1 < len(u) && u[i+1] >= 0xDC00 && u[i+1] < 0xE000:
			sb.WriteRune((rune(c)-0xD800)<<10 + (rune(u[i+1]) - 0xDC00) + 0x10000)
			i++
		default:
			fmt.Fprintf(&sb, "\\u%04X", c)
		}
	}
	sb.WriteByte('"')
	return sb.String()
}

// ---------------------------------------------------------------------------
// ES5 conversions

// NumberToString is ES5 9.8.1 ToString applied to a Number. The digit string is
// the shortest that round-trips (strconv), which is the choice 9.8.1 step 5 makes
// ("k is as small as possible"; strconv's shortest output is also the closest).
func NumberToString(m float64) string {
	switch {
	case math.IsNaN(m):
		return "NaN"
	case m == 0:
		return "0"
	case math.IsInf(m, 1):
		return "Infinity"
	case math.IsInf(m, -1):
		return "-Infinity"
	case m < 0:
		return "-" + NumberToString(-m)
	}
	e := strconv.FormatFloat(m, 'e', -1, 64) // d.ddde±XX
	mant, exps, _ := strings.Cut(e, "e")
	digits := strings.Replace(mant, ".", "", 1)
	x, _ := strconv.Atoi(exps)
	n := x + 1
	k := len(digits)
	switch {
	case k <= n && n <= 21:
		return digits + strings.Repeat("0", n-k)
	case 0 < n && n <= 21:
		return digits[:n] + "." + digits[n:]
	case -6 < n && n <= 0:
		return "0." + strings.Repeat("0", -n) + digits
	}
	sign := "+"
	ex := n - 1
	if ex < 0 {
		sign = "-"
		ex = -ex
	}
	if k == 1 {
		return digits + "e" + sign + strconv.Itoa(ex)
	}
	return digits[:1] + "." + digits[1:] + "e" + sign + strconv.Itoa(ex)
}

func isJSSpace(r rune) bool {
	switch r {
	case 0x9, 0xA, 0xB, 0xC, 0xD, 0x20, 0xA0, 0x1680, 0x180E, 0x2028, 0x2029, 0x202F, 0x205F, 0x3000, 0xFEFF:
		return true
	}
	return r >= 0x2000 && r <= 0x200A
}

// StringToNumber is ES5 9.3.1 (ToNumber applied to the String type) for
// well-formed strings.
func StringToNumber(s string) float64 {
	s = strings.TrimFunc(s, isJSSpace)
	if s == "" {
		return 0
	}
	if len(s) > 2 && (s[:2] == "0x" || s[:2] == "0X") {
		v := new(big.Int)
		for _, c := range s[2:] {
			var d int
			switch {
			case c >= '0' && c <= '9':
				d = int(c - '0')
			case c >= 'a' && c <= 'f':
				d = int(c-'a') + 10
			case c >= 'A' && c <= 'F':
				d = int(c-'A') + 10
			default:
				return math.NaN()
			}
			v.Mul(v, big.NewInt(16)).Add(v, big.NewInt(int64(d)))
		}
		f, _ := new(big.Float).SetInt(v).Float64()
		return f
	}
	body := s
	neg := false
	if body[0] == '+' || body[0] == '-' {
		neg = body[0] == '-'
		body = body[1:]
	}
	if body == "Infinity" {
		if neg {
			return math.Inf(-1)
		}
		return math.Inf(1)
	}
	// StrDecimalLiteral: digits [. digits] [e[+-]digits] | . digits [exp]
	i, nd := 0, 0
	for i < len(body) && body[i] >= '0' && body[i] <= '9' {
		i++
		nd++
	}
	if i < len(body) && body[i] == '.' {
		i++
		for i < len(body) && body[i] >= '0' && body[i] <= '9' {
			i++
			nd++
		}
	}
	if nd == 0 {
		return math.NaN()
	}
	if i < len(body) && (body[i] == 'e' || body[i] == 'E') {
		i++
		if i < len(body) && (body[i] == '+' || body[i] == '-') {
			i++
		}
		ne := 0
		for i < len(body) && body[i] >= '0' && body[i] <= '9' {
			i++
			ne++
		}
		if ne == 0 {
			return math.NaN()
		}
	}
	if i != len(body) {
		return math.NaN()
	}
	f, err := strconv.ParseFloat(body, 64)
	if err != nil && !(math.IsInf(f, 0) || f == 0) {
		return math.NaN()
	}
	if neg {
		f = -f
	}
	return f
}

// ToIntegerSat is ES5 9.4 ToInteger followed by saturation to int64 (what a Go
// int64 result can express): NaN -> 0, +-Inf and out-of-range -> the extreme.
func ToIntegerSat(f float64) int64 {
	switch {
	case math.IsNaN(f):
		return 0
	case f >= 9223372036854775808.0:
		return math.MaxInt64
	case f <= -9223372036854775808.0:
		return math.MinInt64
	}
	return int64(math.Trunc(f))
}

// ToBoolean is ES5 9.2 for a node.
func (n *Node) ToBoolean() bool {
	switch n.K {
	case Undef, Null, Hole:
		return false
	case Bool:
		return n.B
	case Num:
		return !(n.N == 0 || math.IsNaN(n.N))
	case Str:
		return len(n.S) > 0
	}
	return true
}

// ---------------------------------------------------------------------------
// Go value -> natural JS counterpart

// IsNilLike reports whether v denotes "no value": nil interface, nil pointer
// (at any depth of pointer chain).
func derefAll(v reflect.Value) (reflect.Value, bool) {
	for v.IsValid() && (v.Kind() == reflect.Ptr || v.Kind() == reflect.Interface) {
		if v.IsNil() {
			return reflect.Value{}, false
		}
		v = v.Elem()
	}
	return v, v.IsValid()
}

// Counterpart maps a Go value to the JS value a script is expected to see:
// nil and nil pointers are undefined (otto's documented choice, see Export's
// table), pointers are transparent, numbers become doubles (nearest), strings
// keep their code points, slices/arrays are array-likes, maps and structs are
// objects keyed by map key / exported field name; unexported fields are absent.
// Function-typed members are reported as Func.
func Counterpart(x interface{}) *Node {
	return counterpart(reflect.ValueOf(x))
}

func counterpart(v reflect.Value) *Node {
	v, ok := derefAll(v)
	if !ok {
		return U()
	}
	switch v.Kind() {
	case reflect.Bool:
		return B(v.Bool())
	case reflect.Int, reflect.Int8, reflect.Int16, reflect.Int32, reflect.Int64:
		return N(float64(v.Int()))
	case reflect.Uint, reflect.Uint8, reflect.Uint16, reflect.Uint32, reflect.Uint64, reflect.Uintptr:
		return N(float64(v.Uint()))
	case reflect.Float32, reflect.Float64:
		return N(v.Float())
	case reflect.String:
		return S(v.String())
	case reflect.Slice, reflect.Array:
		n := &Node{K: Arr}
		for i := 0; i < v.Len(); i++ {
			n.Elem = append(n.Elem, counterpart(v.Index(i)))
		}
		return n
	case reflect.Map:
		n := &Node{K: Obj, Vals: map[string]*Node{}}
		keys := v.MapKeys()
		ks := make([]string, len(keys))
		byKey := map[string]reflect.Value{}
		for i, k := range keys {
			ks[i] = KeyString(k)
			byKey[ks[i]] = v.MapIndex(k)
		}
		sort.Strings(ks)
		for _, k := range ks {
			n.Set(k, counterpart(byKey[k]))
		}
		return n
	case reflect.Struct:
		n := &Node{K: Obj, Vals: map[string]*Node{}}
		t := v.Type()
		for i := 0; i < t.NumField(); i++ {
			f := t.Field(i)
			if !ExportedName(f.Name) {
				continue
			}
			n.Set(f.Name, counterpart(v.Field(i)))
		}
		return n
	case reflect.Func:
		return &Node{K: Func}
	}
	return U()
}

// ExportedName is Go's test for an exported identifier: the first character is
// an upper-case letter (of any script).
func ExportedName(name string) bool {
	if name == "" {
		return false
	}
	r, _ := utf8.DecodeRuneInString(name)
	return unicode.IsUpper(r)
}

// KeyString renders a map key the way a JS property name denotes it.
func KeyString(k reflect.Value) string {
	switch k.Kind() {
	case reflect.String:
		return k.String()
	case reflect.Int, reflect.Int8, reflect.Int16, reflect.Int32, reflect.Int64:
		return strconv.FormatInt(k.Int(), 10)
	case reflect.Uint, reflect.Uint8, reflect.Uint16, reflect.Uint32, reflect.Uint64:
		return strconv.FormatUint(k.Uint(), 10)
	case reflect.Bool:
		return strconv.FormatBool(k.Bool())
	case reflect.Float32, reflect.Float64:
		return NumberToString(k.Float())
	}
	return fmt.Sprint(k.Interface())
}

// JSONView is what JSON.stringify makes of a node (ES5 15.12.3) as data:
// undefined/functions vanish from objects and become null in arrays, non-finite
// numbers become null. The second result is false when the value itself
// serialises to undefined.
func (n *Node) JSONView() (*Node, bool) {
	switch n.K {
	case Undef, Func, Hole:
		return nil, false
	case Num:
		if math.IsNaN(n.N) || math.IsInf(n.N, 0) {
			return NullN(), true
		}
		return N(n.N + 0), true // -0 serialises as "0" (9.8.1)
	case Arr:
		out := &Node{K: Arr}
		for _, e := range n.Elem {
			if j, ok := e.JSONView(); ok {
				out.Elem = append(out.Elem, j)
			} else {
				out.Elem = append(out.Elem, NullN())
			}
		}
		return out, true
	case Obj:
		out := &Node{K: Obj, Vals: map[string]*Node{}}
		for _, k := range n.Keys {
			if j, ok := n.Vals[k].JSONView(); ok {
				out.Set(k, j)
			}
		}
		return out, true
	}
	return n, true
}

// FromGoJSON converts the result of encoding/json.Unmarshal into interface{}
// (with UseNumber or float64 numbers) to a node.
func FromGoJSON(x interface{}) *Node {
	switch x := x.(type) {
	case nil:
		return NullN()
	case bool:
		return B(x)
	case float64:
		return N(x)
	case string:
		return S(x)
	case []interface{}:
		n := &Node{K: Arr}
		for _, e := range x {
			n.Elem = append(n.Elem, FromGoJSON(e))
		}
		return n
	case map[string]interface{}:
		n := &Node{K: Obj, Vals: map[string]*Node{}}
		keys := make([]string, 0, len(x))
		for k := range x {
			keys = append(keys, k)
		}
		sort.Strings(keys)
		for _, k := range keys {
			n.Set(k, FromGoJSON(x[k]))
		}
		return n
	}
	return U()
}

// FromExport converts a value returned by Value.Export to a node BY VALUE:
// every Go numeric kind becomes its float64 (exactly when representable - the
// caller generates only such data), typed slices and []interface{} are both
// arrays, map[string]T are objects, nil is null.
func FromExport(x interface{}) *Node {
	if x == nil {
		return NullN()
	}
	return fromExport(reflect.ValueOf(x))
}

func fromExport(v reflect.Value) *Node {
	for v.Kind() == reflect.Interface || v.Kind() == reflect.Ptr {
		if v.IsNil() {
			return NullN()
		}
		v = v.Elem()
	}
	switch v.Kind() {
	case reflect.Bool:
		return B(v.Bool())
	case reflect.Int, reflect.Int8, reflect.Int16, reflect.Int32, reflect.Int64:
		return N(float64(v.Int()))
	case reflect.Uint, reflect.Uint8, reflect.Uint16, reflect.Uint32, reflect.Uint64:
		return N(float64(v.Uint()))
	case reflect.Float32, reflect.Float64:
		return N(v.Float())
	case reflect.String:
		return S(v.String())
	case reflect.Slice, reflect.Array:
		n := &Node{K: Arr}
		for i := 0; i < v.Len(); i++ {
			n.Elem = append(n.Elem, fromExport(v.Index(i)))
		}
		return n
	case reflect.Map:
		n := &Node{K: Obj, Vals: map[string]*Node{}}
		keys := v.MapKeys()
		ks := make([]string, len(keys))
		byKey := map[string]reflect.Value{}
		for i, k := range keys {
			ks[i] = KeyString(k)
			byKey[ks[i]] = v.MapIndex(k)
		}
		sort.Strings(ks)
		for _, k := range ks {
			n.Set(k, fromExport(byKey[k]))
		}
		return n
	case reflect.Struct:
		n := &Node{K: Obj, Vals: map[string]*Node{}}
		t := v.Type()
		for i := 0; i < t.NumField(); i++ {
			if ExportedName(t.Field(i).Name) {
				n.Set(t.Field(i).Name, fromExport(v.Field(i)))
			}
		}
		return n
	}
	return U()
}

// ---------------------------------------------------------------------------
// Canonical renderings of Go values

// Render renders a Go value with its exact dynamic types (NaN-aware, nil-ness
// of slices/maps/pointers kept, map keys sorted, unexported struct fields
// included): two values render equally iff they have the same dynamic type and
// are reflect.DeepEqual up to NaN == NaN and pointer identity being ignored.
func Render(x interface{}) string {
	if x == nil {
		return "nil"
	}
	var sb strings.Builder
	render(&sb, reflect.ValueOf(x), true, 0)
	return sb.String()
}

func render(sb *strings.Builder, v reflect.Value, withType bool, depth int) {
	if depth > 12 {
		sb.WriteString("<deep>")
		return
	}
	t := v.Type()
	switch v.Kind() {
	case reflect.Bool:
		if withType {
			fmt.Fprintf(sb, "%s(%v)", t, v.Bool())
		} else {
			fmt.Fprintf(sb, "%v", v.Bool())
		}
	case reflect.Int, reflect.Int8, reflect.Int16, reflect.Int32, reflect.Int64:
		if withType {
			fmt.Fprintf(sb, "%s(%d)", t, v.Int())
		} else {
			fmt.Fprintf(sb, "%d", v.Int())
		}
	case reflect.Uint, reflect.Uint8, reflect.Uint16, reflect.Uint32, reflect.Uint64, reflect.Uintptr:
		if withType {
			fmt.Fprintf(sb, "%s(%d)", t, v.Uint())
		} else {
			fmt.Fprintf(sb, "%d", v.Uint())
		}
	case reflect.Float32, reflect.Float64:
		if withType {
			fmt.Fprintf(sb, "%s(%s)", t, NumStr(v.Float()))
		} else {
			sb.WriteString(NumStr(v.Float()))
		}
	case reflect.String:
		if withType {
			fmt.Fprintf(sb, "%s(%s)", t, quoteBytes(v.String()))
		} else {
			sb.WriteString(quoteBytes(v.String()))
		}
	case reflect.Interface:
		if v.IsNil() {
			sb.WriteString("nil")
			return
		}
		render(sb, v.Elem(), true, depth+1)
	case reflect.Ptr:
		if v.IsNil() {
			fmt.Fprintf(sb, "(%s)(nil)", t)
			return
		}
		sb.WriteString("&")
		render(sb, v.Elem(), true, depth+1)
	case reflect.Slice:
		if v.IsNil() {
			fmt.Fprintf(sb, "%s(nil)", t)
			return
		}
		fallthrough
	case reflect.Array:
		fmt.Fprintf(sb, "%s{", t)
		elemTyped := t.Elem().Kind() == reflect.Interface
		for i := 0; i < v.Len(); i++ {
			if i > 0 {
				sb.WriteString(", ")
			}
			render(sb, v.Index(i), elemTyped, depth+1)
		}
		sb.WriteString("}")
	case reflect.Map:
		if v.IsNil() {
			fmt.Fprintf(sb, "%s(nil)", t)
			return
		}
		fmt.Fprintf(sb, "%s{", t)
		keys := v.MapKeys()
		type kv struct {
			k string
			v reflect.Value
		}
		l := make([]kv, len(keys))
		for i, k := range keys {
			var kb strings.Builder
			render(&kb, k, false, depth+1)
			l[i] = kv{kb.String(), v.MapIndex(k)}
		}
		sort.Slice(l, func(i, j int) bool { return l[i].k < l[j].k })
		for i, e := range l {
			if i > 0 {
				sb.WriteString(", ")
			}
			sb.WriteString(e.k)
			sb.WriteString(": ")
			render(sb, e.v, t.Elem().Kind() == reflect.Interface, depth+1)
		}
		sb.WriteString("}")
	case reflect.Struct:
		fmt.Fprintf(sb, "%s{", t)
		for i := 0; i < v.NumField(); i++ {
			if i > 0 {
				sb.WriteString(", ")
			}
			sb.WriteString(t.Field(i).Name)
			sb.WriteString(": ")
			render(sb, v.Field(i), t.Field(i).Type.Kind() == reflect.Interface, depth+1)
		}
		sb.WriteString("}")
	case reflect.Func:
		if v.IsNil() {
			fmt.Fprintf(sb, "%s(nil)", t)
		} else {
			fmt.Fprintf(sb, "%s(func)", t)
		}
	default:
		fmt.Fprintf(sb, "%s(?)", t)
	}
}

func quoteBytes(s string) string {
	var sb strings.Builder
	sb.WriteByte('"')
	for i := 0; i < len(s); {
		r, n := utf8.DecodeRuneInString(s[i:])
		switch {
		case r == utf8.RuneError && n == 1:
			fmt.Fprintf(&sb, "\\x%02x", s[i])
		case r >= 0x20 && r < 0x7f && r != '"' && r != '\\':
			sb.WriteByte(byte(r))
		case r < 0x10000:
			fmt.Fprintf(&sb, "\\u%04X", r)
		default:
			fmt.Fprintf(&sb, "\\U%08X", r)
		}
		i += n
	}
	sb.WriteByte('"')
	return sb.String()
}

// ---------------------------------------------------------------------------
// exact representability

// FitsInt reports whether the double f is an integer inside [min, max] of the
// given bit size (signed).
func FitsInt(f float64, bits int) (int64, bool) {
	if math.IsNaN(f) || math.IsInf(f, 0) || f != math.Trunc(f) {
		return 0, false
	}
	lo := -math.Ldexp(1, bits-1)
	hi := math.Ldexp(1, bits-1) // exclusive
	if f < lo || f >= hi {
		return 0, false
	}
	return int64(f), true
}

// FitsUint is FitsInt for unsigned kinds. Negative zero denotes 0.
func FitsUint(f float64, bits int) (uint64, bool) {
	if math.IsNaN(f) || math.IsInf(f, 0) || f != math.Trunc(f) {
		return 0, false
	}
	if f < 0 || f >= math.Ldexp(1, bits) {
		return 0, false
	}
	return uint64(f), true
}

// FitsFloat32 reports whether the double is exactly a float32 (NaN and the
// infinities are; so are both zeros).
func FitsFloat32(f float64) bool {
	if math.IsNaN(f) {
		return true
	}
	return float64(float32(f)) == f
}
