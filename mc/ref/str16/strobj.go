package str16

import (
	"sort"
	"strconv"
)

// StrObj is the reference model of a String object's property behaviour:
// 15.5.5.1 (length), 15.5.5.2 ([[GetOwnProperty]]) and the ordinary internal
// methods of 8.12 built on top of it ([[Get]], [[CanPut]], [[Put]],
// [[HasProperty]], [[Delete]], [[DefineOwnProperty]]), non-strict callers.
// Values are opaque tags (strings); String.prototype and Object.prototype carry
// none of the names the check uses, so the prototype chain contributes nothing.
type StrObj struct {
	Units []uint16
	names []string // ordinary own properties in creation order
	props map[string]*Prop
}

// Prop is a property descriptor; absent fields are marked by the Has flags
// (a stored property has every field of its kind).
type Prop struct {
	Accessor               bool
	Value                  string // data: value tag
	Getter                 string // accessor: tag returned by the getter ("" = no getter)
	W, E, C                bool
	HasV, HasW, HasE, HasC bool
	HasGet                 bool
}

// NewStrObj is new String(units).
func NewStrObj(units []uint16) *StrObj {
	o := &StrObj{Units: units, props: map[string]*Prop{}}
	o.store("length", &Prop{Value: "n:" + strconv.Itoa(len(units))}) // 15.5.5.1: {W:false,E:false,C:false}
	return o
}

func (o *StrObj) store(name string, p *Prop) {
	if _, ok := o.props[name]; !ok {
		o.names = append(o.names, name)
	}
	o.props[name] = p
}

// canonicalIndex: ToString(abs(ToInteger(P))) == P, as an integer (15.5.5.2 steps 3-5).
func canonicalIndex(p string) (int, bool) {
	if p == "" || (len(p) > 1 && p[0] == '0') || len(p) > 15 {
		return 0, false
	}
	n := 0
	for i := 0; i < len(p); i++ {
		if p[i] < '0' || p[i] > '9' {
			return 0, false
		}
		n = n*10 + int(p[i]-'0')
	}
	return n, true
}

// GetOwnProperty is 15.5.5.2.
func (o *StrObj) GetOwnProperty(p string) *Prop {
	if d, ok := o.props[p]; ok { // steps 1-2: the ordinary lookup comes first
		return d
	}
	if i, ok := canonicalIndex(p); ok && i < len(o.Units) { // steps 3-9
		return &Prop{Value: "s:" + string(rune(o.Units[i])), W: false, E: true, C: false}
	}
	return nil
}

// Get is 8.12.3 (the prototypes have none of the names).
func (o *StrObj) Get(p string) string {
	d := o.GetOwnProperty(p)
	switch {
	case d == nil:
		return "undefined"
	case d.Accessor:
		if d.Getter == "" {
			return "undefined"
		}
		return "s:" + d.Getter
	}
	return d.Value
}

// HasProperty is 8.12.6.
func (o *StrObj) HasProperty(p string) bool { return o.GetOwnProperty(p) != nil }

// Put is 8.12.5 with throw = false.
func (o *StrObj) Put(p, v string) {
	d := o.GetOwnProperty(p)
	// 8.12.4 [[CanPut]]
	if d != nil {
		if d.Accessor || !d.W { // our accessors have no setter
			return
		}
		o.DefineOwnProperty(p, Prop{Value: v, HasV: true}) // step 3
		return
	}
	// no inherited property of that name, object extensible: step 6
	o.DefineOwnProperty(p, Prop{Value: v, HasV: true, W: true, HasW: true, E: true, HasE: true, C: true, HasC: true})
}

// Delete is 8.12.7 with throw = false.
func (o *StrObj) Delete(p string) bool {
	d := o.GetOwnProperty(p)
	if d == nil {
		return true
	}
	if !d.C {
		return false
	}
	delete(o.props, p)
	for i, n := range o.names {
		if n == p {
			o.names = append(o.names[:i:i], o.names[i+1:]...)
			break
		}
	}
	return true
}

// DefineOwnProperty is 8.12.9; it returns false where a TypeError is thrown
// (Object.defineProperty calls it with throw = true).
func (o *StrObj) DefineOwnProperty(p string, desc Prop) bool {
	cur := o.GetOwnProperty(p)
	isAcc := desc.Accessor
	isData := desc.HasV || desc.HasW
	if cur == nil { // steps 3-4 (extensible)
		n := &Prop{E: desc.HasE && desc.E, C: desc.HasC && desc.C}
		if isAcc {
			n.Accessor, n.Getter = true, desc.Getter
		} else {
			n.Value = "undefined"
			if desc.HasV {
				n.Value = desc.Value
			}
			n.W = desc.HasW && desc.W
		}
		o.store(p, n)
		return true
	}
	if !cur.C { // step 7
		if desc.HasC && desc.C {
			return false
		}
		if desc.HasE && desc.E != cur.E {
			return false
		}
	}
	switch {
	case !isAcc && !isData: // step 8: generic descriptor
	case isAcc != cur.Accessor: // step 9
		if !cur.C {
			return false
		}
	case !isAcc: // step 10: both data
		if !cur.C {
			if !cur.W && desc.HasW && desc.W {
				return false
			}
			if !cur.W && desc.HasV && desc.Value != cur.Value {
				return false
			}
		}
	default: // step 11: both accessors
		if !cur.C && desc.HasGet && desc.Getter != cur.Getter {
			return false
		}
	}
	if _, stored := o.props[p]; !stored {
		// an index property of the string value: everything accepted above leaves it unchanged
		return true
	}
	// step 12: set the attributes present in desc
	n := *cur
	if isAcc && !cur.Accessor {
		n = Prop{Accessor: true, E: cur.E, C: cur.C}
	} else if isData && cur.Accessor {
		n = Prop{Value: "undefined", E: cur.E, C: cur.C}
	}
	if desc.HasV {
		n.Value = desc.Value
	}
	if desc.HasW {
		n.W = desc.W
	}
	if desc.HasGet {
		n.Getter = desc.Getter
	}
	if desc.HasE {
		n.E = desc.E
	}
	if desc.HasC {
		n.C = desc.C
	}
	o.props[p] = &n
	return true
}

// OwnNames lists the own property names (index properties of the value first);
// enumerableOnly restricts to enumerable ones. The result is sorted: ES5 does not
// fix the order.
func (o *StrObj) OwnNames(enumerableOnly bool) []string {
	var out []string
	for i := range o.Units {
		if _, shadow := o.props[strconv.Itoa(i)]; !shadow {
			out = append(out, strconv.Itoa(i))
		}
	}
	for _, n := range o.names {
		if !enumerableOnly || o.props[n].E {
			out = append(out, n)
		}
	}
	sort.Strings(out)
	return out
}
