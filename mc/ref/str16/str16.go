// Package str16 is the reference model for ES5.1 15.5 (String objects): every
// String.prototype method of property C09 written over sequences of UTF-16
// code units, step by step as the specification states it (clause numbers in
// the comments). It is transcribed from the ES5.1 text, not from otto.
//
// The position algorithms are generic in the unit type so that the very same
// transcription can be re-run over code points or UTF-8 bytes; the check uses
// those instantiations only as *alternative models* that pin down known
// wrong-unit findings. The oracle is always the []uint16 instantiation.
package str16

import (
	"math"
	"strconv"
)

// Unit is an element type positions are counted in.
type Unit interface {
	~uint8 | ~uint16 | ~int32
}

// Arg is an argument value after ToNumber (9.3). Undef marks the undefined
// value; an absent argument is undefined (15: "missing arguments are undefined").
type Arg struct {
	Undef bool
	Num   float64
}

// Undefined is the undefined / absent argument.
var Undefined = Arg{Undef: true, Num: math.NaN()}

// N makes a numeric argument.
func N(x float64) Arg { return Arg{Num: x} }

// ToInteger is 9.4 (the result is kept as float64: it may be infinite).
func ToInteger(x float64) float64 {
	switch {
	case math.IsNaN(x):
		return 0
	case x == 0 || math.IsInf(x, 0):
		return x
	}
	return math.Copysign(math.Floor(math.Abs(x)), x)
}

func (a Arg) integer() float64 {
	// ToInteger(undefined) = ToInteger(NaN) = +0
	if a.Undef {
		return 0
	}
	return ToInteger(a.Num)
}

// modPow2 returns the mathematical value of posInt modulo 2^k (9.5-9.7 steps 3-4).
func modPow2(x float64, k uint) float64 {
	if math.IsNaN(x) || math.IsInf(x, 0) || x == 0 {
		return 0
	}
	posInt := math.Copysign(math.Floor(math.Abs(x)), x)
	m := math.Ldexp(1, int(k))
	r := math.Mod(posInt, m) // exact for doubles; sign follows posInt
	if r < 0 {
		r += m
	}
	return r
}

// ToUint16 is 9.7.
func ToUint16(x float64) uint16 { return uint16(modPow2(x, 16)) }

// ToUint32 is 9.6.
func ToUint32(x float64) uint32 { return uint32(modPow2(x, 32)) }

func clamp(x, lo, hi float64) float64 { return math.Min(math.Max(x, lo), hi) }

// CharAt is 15.5.4.4; ok=false means the empty String is returned.
func CharAt[T Unit](s []T, pos Arg) (T, bool) {
	position := pos.integer() // step 3
	size := float64(len(s))   // step 4
	if position < 0 || position >= size {
		return 0, false // step 5
	}
	return s[int(position)], true // step 6
}

// IndexOf is 15.5.4.7.
func IndexOf[T Unit](s, search []T, position Arg) int {
	pos := position.integer() // step 4: undefined -> 0
	ln := float64(len(s))
	start := int(clamp(pos, 0, ln)) // step 6
	searchLen := len(search)
	for k := start; k+searchLen <= len(s); k++ { // step 8: smallest k >= start
		if match(s, k, search) {
			return k
		}
	}
	return -1
}

// LastIndexOf is 15.5.4.8.
func LastIndexOf[T Unit](s, search []T, position Arg) int {
	numPos := position.Num // step 4: ToNumber(position); undefined -> NaN
	if position.Undef {
		numPos = math.NaN()
	}
	var pos float64
	if math.IsNaN(numPos) { // step 5
		pos = math.Inf(1)
	} else {
		pos = ToInteger(numPos)
	}
	ln := float64(len(s))
	start := int(clamp(pos, 0, ln)) // step 7
	searchLen := len(search)
	for k := start; k >= 0; k-- { // step 9: largest k <= start
		if k+searchLen <= len(s) && match(s, k, search) {
			return k
		}
	}
	return -1
}

func match[T Unit](s []T, k int, search []T) bool {
	for j := range search {
		if s[k+j] != search[j] {
			return false
		}
	}
	return true
}

// Slice is 15.5.4.13.
func Slice[T Unit](s []T, start, end Arg) []T {
	ln := float64(len(s))
	intStart := start.integer() // step 4
	intEnd := ln                // step 5
	if !end.Undef {
		intEnd = ToInteger(end.Num)
	}
	var from, to float64
	if intStart < 0 { // step 6
		from = math.Max(ln+intStart, 0)
	} else {
		from = math.Min(intStart, ln)
	}
	if intEnd < 0 { // step 7
		to = math.Max(ln+intEnd, 0)
	} else {
		to = math.Min(intEnd, ln)
	}
	span := math.Max(to-from, 0) // step 8
	return s[int(from) : int(from)+int(span)]
}

// Substring is 15.5.4.15.
func Substring[T Unit](s []T, start, end Arg) []T {
	ln := float64(len(s))
	intStart := start.integer() // step 4
	intEnd := ln                // step 5
	if !end.Undef {
		intEnd = ToInteger(end.Num)
	}
	finalStart := clamp(intStart, 0, ln) // step 6
	finalEnd := clamp(intEnd, 0, ln)     // step 7
	from := math.Min(finalStart, finalEnd)
	to := math.Max(finalStart, finalEnd)
	return s[int(from):int(to)]
}

// Substr is B.2.3.
func Substr[T Unit](s []T, start, length Arg) []T {
	r2 := start.integer() // step 2
	r3 := math.Inf(1)     // step 3: length undefined -> +Infinity
	if !length.Undef {
		r3 = ToInteger(length.Num)
	}
	r4 := float64(len(s)) // step 4
	r5 := r2              // step 5
	if r2 < 0 {
		r5 = math.Max(r4+r2, 0)
	}
	r6 := math.Min(math.Max(r3, 0), r4-r5) // step 6
	if r6 <= 0 {                           // step 7
		return s[:0]
	}
	return s[int(r5) : int(r5)+int(r6)] // step 8
}

// Split is 15.5.4.14 for a String (or undefined) separator. sepUndef says the
// separator is undefined; otherwise sep is ToString(separator).
func Split[T Unit](s []T, sepUndef bool, sep []T, limit Arg) [][]T {
	a := [][]T{}
	lim := uint32(math.MaxUint32) // step 5
	if !limit.Undef {
		lim = ToUint32(limit.Num)
	}
	size := len(s) // step 6
	p := 0         // step 7
	if lim == 0 {  // step 9
		return a
	}
	if sepUndef { // step 10
		return append(a, s)
	}
	splitMatch := func(q int) (int, bool) { // SplitMatch(S, q, R), R a String
		r := len(sep)
		if q+r > size {
			return 0, false
		}
		if !match(s, q, sep) {
			return 0, false
		}
		return q + r, true
	}
	if size == 0 { // step 11
		if _, ok := splitMatch(0); ok {
			return a
		}
		return append(a, s)
	}
	q := p          // step 12
	for q != size { // step 13
		e, ok := splitMatch(q)
		if !ok {
			q++
			continue
		}
		if e == p { // 13.c.ii
			q++
			continue
		}
		a = append(a, s[p:q]) // 13.c.iii.1-2
		if uint32(len(a)) == lim {
			return a
		}
		p = e
		q = p
	}
	return append(a, s[p:size]) // steps 14-16
}

// Concat is 15.5.4.6.
func Concat(s []uint16, args ...[]uint16) []uint16 {
	r := append([]uint16{}, s...)
	for _, a := range args {
		r = append(r, a...)
	}
	return r
}

// White-space classes of 15.5.4.20 / 7.2 / 7.3.
const (
	NotSpace = iota
	Space    // WhiteSpace or LineTerminator in every Unicode version >= 3.0
	EitherWS // category Zs only in some Unicode versions >= 3.0 (U+180E, U+200B): both answers conform
)

// SpaceClass classifies a code unit for trim.
func SpaceClass(c uint16) int {
	switch c {
	case 0x0009, 0x000B, 0x000C, 0x0020, 0x00A0, 0xFEFF: // 7.2 Table 2
		return Space
	case 0x000A, 0x000D, 0x2028, 0x2029: // 7.3 Table 3
		return Space
	case 0x1680, 0x202F, 0x205F, 0x3000: // Zs
		return Space
	case 0x180E, 0x200B: // Zs in Unicode 3.0, reclassified later
		return EitherWS
	}
	if c >= 0x2000 && c <= 0x200A { // Zs
		return Space
	}
	return NotSpace
}

// Trim is 15.5.4.20. definite=false when the answer depends on the Unicode
// version (an EitherWS unit is adjacent to the trimmed region).
func Trim(s []uint16) (out []uint16, definite bool) {
	i, j := 0, len(s)
	for i < j && SpaceClass(s[i]) == Space {
		i++
	}
	for j > i && SpaceClass(s[j-1]) == Space {
		j--
	}
	definite = true
	if i < j && (SpaceClass(s[i]) == EitherWS || SpaceClass(s[j-1]) == EitherWS) {
		definite = false
	}
	return s[i:j], definite
}

// CodePoints decodes UTF-16 to code points; a lone surrogate stays as itself.
func CodePoints(s []uint16) []rune {
	out := make([]rune, 0, len(s))
	for i := 0; i < len(s); i++ {
		c := rune(s[i])
		if c >= 0xD800 && c < 0xDC00 && i+1 < len(s) && s[i+1] >= 0xDC00 && s[i+1] < 0xE000 {
			out = append(out, 0x10000+(c-0xD800)<<10+(rune(s[i+1])-0xDC00))
			i++
			continue
		}
		out = append(out, c)
	}
	return out
}

// Encode encodes code points (lone surrogate values allowed) as UTF-16.
func Encode(cps []rune) []uint16 {
	out := make([]uint16, 0, len(cps))
	for _, c := range cps {
		if c >= 0x10000 {
			c -= 0x10000
			out = append(out, uint16(0xD800+(c>>10)), uint16(0xDC00+(c&0x3FF)))
		} else {
			out = append(out, uint16(c))
		}
	}
	return out
}

// simpleCase is the simple case mapping (UnicodeData.txt columns 12-14) for
// the code points the model covers: ASCII, Latin-1 and a few hand-picked
// others. ok=false: the code point is outside the table, or its full mapping
// (SpecialCasing.txt) differs from the simple one (the property statement
// excludes those).
func simpleCase(c rune, upper bool) (rune, bool) {
	switch {
	case c < 0x80:
		if upper && c >= 'a' && c <= 'z' {
			return c - 32, true
		}
		if !upper && c >= 'A' && c <= 'Z' {
			return c + 32, true
		}
		return c, true
	case c <= 0xFF:
		switch {
		case c == 0xDF: // sharp s: full upper mapping is "SS"
			return c, !upper
		case c == 0xB5: // micro sign -> GREEK CAPITAL LETTER MU
			if upper {
				return 0x39C, true
			}
			return c, true
		case c == 0xFF: // y diaeresis -> U+0178
			if upper {
				return 0x178, true
			}
			return c, true
		case c == 0xD7 || c == 0xF7 || c < 0xC0:
			return c, true
		case c < 0xE0:
			if !upper {
				return c + 32, true
			}
			return c, true
		default:
			if upper {
				return c - 32, true
			}
			return c, true
		}
	}
	for _, p := range casePairs {
		if c == p[0] { // the upper-case member
			if upper {
				return c, true
			}
			return p[1], true
		}
		if c == p[1] {
			if upper {
				return p[0], true
			}
			return c, true
		}
	}
	for _, n := range caseless {
		if c == n {
			return c, true
		}
	}
	if c >= 0xD800 && c < 0xE000 { // lone surrogates have no case
		return c, true
	}
	return c, false
}

// casePairs are (upper, lower) pairs beyond Latin-1 with one-to-one simple
// mappings in both directions and no SpecialCasing entry.
var casePairs = [][2]rune{
	{0x0391, 0x03B1},   // GREEK ALPHA
	{0x0414, 0x0434},   // CYRILLIC DE
	{0x0178, 0x00FF},   // Y WITH DIAERESIS
	{0x0100, 0x0101},   // A WITH MACRON
	{0x10400, 0x10428}, // DESERET LONG I (astral)
	{0x1E00, 0x1E01},   // A WITH RING BELOW
	{0x2160, 0x2170},   // ROMAN NUMERAL ONE
	{0xFF21, 0xFF41},   // FULLWIDTH A
}

var caseless = []rune{0x20AC, 0x3042, 0x1F600, 0x2028, 0xFFFD}

// CaseTableCodePoints lists the non-Latin-1 code points the case model covers.
func CaseTableCodePoints() []rune {
	var out []rune
	for _, p := range casePairs {
		out = append(out, p[0], p[1])
	}
	return append(out, caseless...)
}

func mapCase(s []uint16, upper bool) ([]uint16, bool) {
	cps := CodePoints(s)
	out := make([]rune, len(cps))
	for i, c := range cps {
		m, ok := simpleCase(c, upper)
		if !ok {
			return nil, false
		}
		out[i] = m
	}
	return Encode(out), true
}

// ToLowerCase is 15.5.4.16 on the covered code points (ok=false otherwise).
func ToLowerCase(s []uint16) ([]uint16, bool) { return mapCase(s, false) }

// ToUpperCase is 15.5.4.18 on the covered code points (ok=false otherwise).
func ToUpperCase(s []uint16) ([]uint16, bool) { return mapCase(s, true) }

// FromCharCode is 15.5.3.2 on arguments already converted by ToNumber.
func FromCharCode(args []float64) []uint16 {
	out := make([]uint16, len(args))
	for i, a := range args {
		out[i] = ToUint16(a)
	}
	return out
}

// OwnIndex is 15.5.5.2 [[GetOwnProperty]] steps 3-9 for a property name p that
// is not an ordinary own property: the single-unit String at that index.
// toInteger is ToInteger(ToNumber(p)) supplied by the caller (string-to-number
// conversion is outside this model); numToString is ToString of a Number.
func OwnIndex(s []uint16, p string, toIntegerOfP float64) (uint16, bool) {
	if NumberToString(math.Abs(toIntegerOfP)) != p { // step 3
		return 0, false
	}
	index := toIntegerOfP         // step 5
	if float64(len(s)) <= index { // step 7
		return 0, false
	}
	return s[int(index)], true
}

// NumberToString is 9.8.1 restricted to what OwnIndex needs: non-negative
// integers below 1e21 print as decimal digits, +Infinity as "Infinity";
// everything else as Go's shortest form (never equal to a canonical index).
func NumberToString(x float64) string {
	switch {
	case math.IsInf(x, 1):
		return "Infinity"
	case math.IsNaN(x):
		return "NaN"
	case x >= 0 && x < 1e21 && x == math.Floor(x):
		return strconv.FormatFloat(x, 'f', 0, 64)
	}
	return strconv.FormatFloat(x, 'g', -1, 64)
}

// HasLoneSurrogate reports whether s is not well-formed UTF-16.
func HasLoneSurrogate(s []uint16) bool {
	for _, c := range CodePoints(s) {
		if c >= 0xD800 && c < 0xE000 {
			return true
		}
	}
	return false
}

// IsASCII reports whether all units are below 0x80.
func IsASCII(s []uint16) bool {
	for _, c := range s {
		if c >= 0x80 {
			return false
		}
	}
	return true
}
