// Package date is the reference model of the ES5.1 Date time-value algebra:
// a direct transcription of 15.9.1.2-15.9.1.14 (Day, TimeWithinDay, DaysInYear,
// DayFromYear, TimeFromYear, YearFromTime, InLeapYear, MonthFromTime,
// DateFromTime, WeekDay, HourFromTime..., MakeTime, MakeDay, MakeDate,
// TimeClip), the 15.9.1.15 ISO format including the expanded +-YYYYYY years, and
// the composition of these by Date.UTC (15.9.4.3), the constructor (15.9.3.1,
// 15.9.3.2) and the UTC setters (15.9.5.27-15.9.5.41).
//
// Calendar computations are done in int64 with floor division; nothing in this
// package uses Go's time package. Time values are float64 exactly as in the
// language (NaN = invalid); every finite time value handled here is an integer
// of magnitude far below 2^53 so the IEEE arithmetic the specification asks
// for in MakeTime/MakeDate is exact.
package date

import (
	"math"
)

const (
	HoursPerDay      = 24
	MinutesPerHour   = 60
	SecondsPerMinute = 60
	MsPerSecond      = 1000
	MsPerMinute      = 60000
	MsPerHour        = 3600000
	MsPerDay         = 86400000
	// MaxTime is the largest time value magnitude (15.9.1.1).
	MaxTime = 8.64e15
)

func floorDiv(a, b int64) int64 {
	q := a / b
	if (a%b != 0) && ((a < 0) != (b < 0)) {
		q--
	}
	return q
}

func floorMod(a, b int64) int64 { return a - floorDiv(a, b)*b }

// ToInteger is 9.4.
func ToInteger(x float64) float64 {
	if math.IsNaN(x) {
		return 0
	}
	if x == 0 || math.IsInf(x, 0) {
		return x
	}
	return math.Trunc(x) // sign(x) * floor(abs(x))
}

func finite(x float64) bool { return !math.IsNaN(x) && !math.IsInf(x, 0) }

// Day is 15.9.1.2 Day(t) for an integral time value.
func Day(t int64) int64 { return floorDiv(t, MsPerDay) }

// TimeWithinDay is 15.9.1.2.
func TimeWithinDay(t int64) int64 { return floorMod(t, MsPerDay) }

// DaysInYear is 15.9.1.3.
func DaysInYear(y int64) int64 {
	switch {
	case floorMod(y, 4) != 0:
		return 365
	case floorMod(y, 100) != 0:
		return 366
	case floorMod(y, 400) != 0:
		return 365
	}
	return 366
}

// DayFromYear is 15.9.1.3.
func DayFromYear(y int64) int64 {
	return 365*(y-1970) + floorDiv(y-1969, 4) - floorDiv(y-1901, 100) + floorDiv(y-1601, 400)
}

// TimeFromYear is 15.9.1.3.
func TimeFromYear(y int64) int64 { return MsPerDay * DayFromYear(y) }

// YearFromTime is 15.9.1.3: the largest integer y such that TimeFromYear(y) <= t.
func YearFromTime(t int64) int64 {
	d := Day(t)
	// first estimate, then walk to the defining property
	y := 1970 + floorDiv(d*10000, 3652425)
	for DayFromYear(y) > d {
		y--
	}
	for DayFromYear(y+1) <= d {
		y++
	}
	return y
}

// InLeapYear is 15.9.1.3.
func InLeapYear(t int64) int64 {
	if DaysInYear(YearFromTime(t)) == 366 {
		return 1
	}
	return 0
}

// DayWithinYear is 15.9.1.4.
func DayWithinYear(t int64) int64 { return Day(t) - DayFromYear(YearFromTime(t)) }

// MonthFromTime is 15.9.1.4 (the table of the specification, verbatim).
func MonthFromTime(t int64) int64 {
	d := DayWithinYear(t)
	l := InLeapYear(t)
	switch {
	case 0 <= d && d < 31:
		return 0
	case 31 <= d && d < 59+l:
		return 1
	case 59+l <= d && d < 90+l:
		return 2
	case 90+l <= d && d < 120+l:
		return 3
	case 120+l <= d && d < 151+l:
		return 4
	case 151+l <= d && d < 181+l:
		return 5
	case 181+l <= d && d < 212+l:
		return 6
	case 212+l <= d && d < 243+l:
		return 7
	case 243+l <= d && d < 273+l:
		return 8
	case 273+l <= d && d < 304+l:
		return 9
	case 304+l <= d && d < 334+l:
		return 10
	case 334+l <= d && d < 365+l:
		return 11
	}
	panic("ref/date: MonthFromTime: day within year out of range")
}

// DateFromTime is 15.9.1.5 (the table of the specification, verbatim).
func DateFromTime(t int64) int64 {
	d := DayWithinYear(t)
	l := InLeapYear(t)
	switch MonthFromTime(t) {
	case 0:
		return d + 1
	case 1:
		return d - 30
	case 2:
		return d - 58 - l
	case 3:
		return d - 89 - l
	case 4:
		return d - 119 - l
	case 5:
		return d - 150 - l
	case 6:
		return d - 180 - l
	case 7:
		return d - 211 - l
	case 8:
		return d - 242 - l
	case 9:
		return d - 272 - l
	case 10:
		return d - 303 - l
	case 11:
		return d - 333 - l
	}
	panic("unreachable")
}

// WeekDay is 15.9.1.6.
func WeekDay(t int64) int64 { return floorMod(Day(t)+4, 7) }

// HourFromTime .. MsFromTime are 15.9.1.10.
func HourFromTime(t int64) int64 { return floorMod(floorDiv(t, MsPerHour), HoursPerDay) }
func MinFromTime(t int64) int64  { return floorMod(floorDiv(t, MsPerMinute), MinutesPerHour) }
func SecFromTime(t int64) int64  { return floorMod(floorDiv(t, MsPerSecond), SecondsPerMinute) }
func MsFromTime(t int64) int64   { return floorMod(t, MsPerSecond) }

// MakeTime is 15.9.1.11.
func MakeTime(hour, min, sec, ms float64) float64 {
	if !finite(hour) || !finite(min) || !finite(sec) || !finite(ms) {
		return math.NaN()
	}
	h := ToInteger(hour)
	m := ToInteger(min)
	s := ToInteger(sec)
	milli := ToInteger(ms)
	return h*MsPerHour + m*MsPerMinute + s*MsPerSecond + milli
}

// yearLimit bounds the years for which MakeDay looks for a time value; beyond
// it every result is far outside the time-value range and is NaN after TimeClip
// in all compositions (step 7 of MakeDay permits NaN there).
const yearLimit = 100000000

// MakeDay is 15.9.1.12.
func MakeDay(year, month, date float64) float64 {
	if !finite(year) || !finite(month) || !finite(date) {
		return math.NaN()
	}
	y := ToInteger(year)
	m := ToInteger(month)
	dt := ToInteger(date)
	ym := y + math.Floor(m/12)
	mn := math.Mod(m, 12)
	if mn < 0 {
		mn += 12
	}
	if math.Abs(ym) > yearLimit {
		return math.NaN()
	}
	// find t with YearFromTime(t)==ym, MonthFromTime(t)==mn, DateFromTime(t)==1
	yi := int64(ym)
	t := TimeFromYear(yi)
	for MonthFromTime(t) != int64(mn) {
		t += MsPerDay
		if YearFromTime(t) != yi {
			panic("ref/date: MakeDay: month not found")
		}
	}
	if YearFromTime(t) != yi || DateFromTime(t) != 1 {
		panic("ref/date: MakeDay: internal inconsistency")
	}
	return float64(Day(t)) + dt - 1
}

// MakeDate is 15.9.1.13.
func MakeDate(day, time float64) float64 {
	if !finite(day) || !finite(time) {
		return math.NaN()
	}
	return day*MsPerDay + time
}

// TimeClip is 15.9.1.14.
func TimeClip(time float64) float64 {
	if !finite(time) {
		return math.NaN()
	}
	if math.Abs(time) > MaxTime {
		return math.NaN()
	}
	return ToInteger(time) + 0 // -0 becomes +0
}

// Fields are the UTC components of a valid time value.
type Fields struct {
	Year, Month, Date, Day, Hours, Minutes, Seconds, Ms int64
}

// Decompose applies the accessor formulas (15.9.5.10-15.9.5.25, UTC variants)
// to an integral time value.
func Decompose(t int64) Fields {
	return Fields{
		Year: YearFromTime(t), Month: MonthFromTime(t), Date: DateFromTime(t), Day: WeekDay(t),
		Hours: HourFromTime(t), Minutes: MinFromTime(t), Seconds: SecFromTime(t), Ms: MsFromTime(t),
	}
}

// ISO is the 15.9.1.15 text of an integral time value as produced by
// toISOString: YYYY-MM-DDTHH:mm:ss.sssZ, with the expanded form +-YYYYYY
// (15.9.1.15.1) for years outside 0..9999.
func ISO(t int64) string { return formatISO(Decompose(t), false) }

// GoLayoutISO is the alternative model of the toISOString defect: the year is
// printed the way Go's "2006" layout prints it (at least four digits, a bare
// minus sign for negative years, no plus sign, no six-digit padding).
func GoLayoutISO(t int64) string { return formatISO(Decompose(t), true) }

func formatISO(f Fields, goYear bool) string {
	b := make([]byte, 0, 28)
	y := f.Year
	switch {
	case goYear:
		if y < 0 {
			b = append(b, '-')
			y = -y
		}
		b = pad(b, y, 4)
	case y >= 0 && y <= 9999:
		b = pad(b, y, 4)
	case y < 0:
		b = append(b, '-')
		b = pad(b, -y, 6)
	default:
		b = append(b, '+')
		b = pad(b, y, 6)
	}
	b = append(b, '-')
	b = pad(b, f.Month+1, 2)
	b = append(b, '-')
	b = pad(b, f.Date, 2)
	b = append(b, 'T')
	b = pad(b, f.Hours, 2)
	b = append(b, ':')
	b = pad(b, f.Minutes, 2)
	b = append(b, ':')
	b = pad(b, f.Seconds, 2)
	b = append(b, '.')
	b = pad(b, f.Ms, 3)
	b = append(b, 'Z')
	return string(b)
}

func pad(b []byte, v int64, width int) []byte {
	var tmp [24]byte
	i := len(tmp)
	for v > 0 || i == len(tmp) {
		i--
		tmp[i] = byte('0' + v%10)
		v /= 10
	}
	for len(tmp)-i < width {
		i--
		tmp[i] = '0'
	}
	return append(b, tmp[i:]...)
}

// Arg is one actual argument of Date.UTC / the constructor / a setter, already
// reduced by ToNumber (9.3); Present is false when the argument was not passed.
type Arg struct {
	Present bool
	Num     float64
}

// A returns a present argument.
func A(x float64) Arg { return Arg{true, x} }

func argOr(args []Arg, i int, def float64) float64 {
	if i < len(args) && args[i].Present {
		return args[i].Num
	}
	return def
}

// Variant selects deliberate deviations from the specification; the zero value
// is ES5.1. The deviations are the alternative models behind known findings.
type Variant struct {
	NoTimeClip      bool // results are not passed through TimeClip's range test
	YearTestNoToInt bool // the 0..99 two-digit-year test is applied to the raw number, ToInteger only afterwards
	NaNYearSticky   bool // setUTCFullYear leaves an invalid date invalid
	LocalZeroYear   bool // local setFullYear on an invalid date starts from LocalTime(+0) instead of t = +0
}

func (v Variant) clip(t float64) float64 {
	if !v.NoTimeClip {
		return TimeClip(t)
	}
	if !finite(t) {
		return math.NaN()
	}
	return ToInteger(t) + 0
}

// FromFields is the shared body of Date.UTC (15.9.4.3) and of the 2..7-argument
// constructor (15.9.3.1) with LocalTZA = 0 and no daylight saving (UTC(t) = t):
// year and month are mandatory, date defaults to 1, the others to 0; a year
// whose ToInteger lies in 0..99 means 1900+that; the result is clipped.
func FromFields(v Variant, args []Arg) float64 { return FromFieldsLocal(v, args, 0) }

// FromFieldsLocal is the 2..7-argument constructor (15.9.3.1) in a zone with
// constant LocalTZA = tza ms and DaylightSavingTA = 0: the fields are local time,
// the time value is TimeClip(UTC(MakeDate(...))) with UTC(t) = t - LocalTZA (15.9.1.9).
func FromFieldsLocal(v Variant, args []Arg, tza float64) float64 {
	y := argOr(args, 0, math.NaN())
	m := argOr(args, 1, math.NaN())
	dt := argOr(args, 2, 1)
	h := argOr(args, 3, 0)
	mi := argOr(args, 4, 0)
	s := argOr(args, 5, 0)
	ms := argOr(args, 6, 0)
	yr := y
	if !math.IsNaN(y) {
		if v.YearTestNoToInt {
			if y >= 0 && y <= 99 {
				yr = 1900 + y
			}
		} else if yi := ToInteger(y); yi >= 0 && yi <= 99 {
			yr = 1900 + yi
		}
	}
	return v.clip(MakeDate(MakeDay(yr, m, dt), MakeTime(h, mi, s, ms)) - tza)
}

// FromValue is new Date(value) for a non-string primitive already reduced by
// ToNumber (15.9.3.2 step 3), and setTime (15.9.5.27).
func FromValue(v Variant, x float64) float64 { return v.clip(x) }

// Setter identifies one of the UTC setters.
type Setter int

const (
	SetUTCMilliseconds Setter = iota
	SetUTCSeconds
	SetUTCMinutes
	SetUTCHours
	SetUTCDate
	SetUTCMonth
	SetUTCFullYear
	SetTime
	NSetters
)

// SetterNames are the JavaScript method names, indexed by Setter.
var SetterNames = [...]string{"setUTCMilliseconds", "setUTCSeconds", "setUTCMinutes", "setUTCHours",
	"setUTCDate", "setUTCMonth", "setUTCFullYear", "setTime"}

// SetterMaxArgs is the number of parameters each setter reads.
var SetterMaxArgs = [...]int{1, 2, 3, 4, 1, 2, 3, 1}

// Apply performs setter s with the given (ToNumber-reduced) arguments on the
// time value t (NaN = invalid) and returns the new time value, which is also
// the setter's return value (15.9.5.27-15.9.5.41). An absent mandatory first
// argument is ToNumber(undefined) = NaN; absent optional arguments take the
// corresponding component of t.
func Apply(v Variant, s Setter, t float64, args []Arg) float64 { return ApplyLocal(v, s, t, args, 0) }

// ApplyLocal performs the LOCAL twin of setter s (setMilliseconds ... setFullYear;
// 15.9.5.28-40, even-numbered clauses) in a zone with constant LocalTZA = tza ms and
// DaylightSavingTA = 0: t is LocalTime(this time value) = t + LocalTZA, the result is
// TimeClip(UTC(composed local time)) with UTC(u) = u - LocalTZA. setFullYear uses
// t = +0 (not LocalTime(+0)) when the time value is NaN (15.9.5.40 step 1).
// With tza = 0 this is the UTC setter. setTime does not depend on the zone.
func ApplyLocal(v Variant, s Setter, t float64, args []Arg, tza float64) float64 {
	first := argOr(args, 0, math.NaN())
	if s == SetTime {
		return v.clip(first)
	}
	if s == SetUTCFullYear && math.IsNaN(t) && !v.NaNYearSticky {
		t = 0 // 15.9.5.40 / 15.9.5.41 step 1
		if v.LocalZeroYear {
			t += tza
		}
	} else {
		t += tza // LocalTime(t); NaN stays NaN
	}
	// components of t; every one is NaN when t is NaN
	nan := math.NaN()
	day, twd := nan, nan
	yr, mo, dt, h, mi, sec, ms := nan, nan, nan, nan, nan, nan, nan
	if !math.IsNaN(t) {
		ti := int64(t)
		f := Decompose(ti)
		day, twd = float64(Day(ti)), float64(TimeWithinDay(ti))
		yr, mo, dt = float64(f.Year), float64(f.Month), float64(f.Date)
		h, mi, sec, ms = float64(f.Hours), float64(f.Minutes), float64(f.Seconds), float64(f.Ms)
	}
	var u float64
	switch s {
	case SetUTCMilliseconds:
		u = MakeDate(day, MakeTime(h, mi, sec, first))
	case SetUTCSeconds:
		u = MakeDate(day, MakeTime(h, mi, first, argOr(args, 1, ms)))
	case SetUTCMinutes:
		u = MakeDate(day, MakeTime(h, first, argOr(args, 1, sec), argOr(args, 2, ms)))
	case SetUTCHours:
		u = MakeDate(day, MakeTime(first, argOr(args, 1, mi), argOr(args, 2, sec), argOr(args, 3, ms)))
	case SetUTCDate:
		u = MakeDate(MakeDay(yr, mo, first), twd)
	case SetUTCMonth:
		u = MakeDate(MakeDay(yr, first, argOr(args, 1, dt)), twd)
	case SetUTCFullYear:
		u = MakeDate(MakeDay(first, argOr(args, 1, mo), argOr(args, 2, dt)), twd)
	default:
		panic("ref/date: unknown setter")
	}
	return v.clip(u - tza)
}
