// Package shape is the ES5.1 section 15 library table: every (owner, property)
// pair with its kind, function length and attributes, the [[Class]] and
// [[Prototype]] of every intrinsic object, and one distinguishing call per
// function. It is transcribed from the specification text, not from otto.
package shape

import "strings"

// Row is one own property of an intrinsic.
type Row struct {
	Owner string // JS expression denoting the owner, e.g. "Array.prototype"
	Name  string
	Kind  string // "function" | "number" | "string" | "undefined" | "object" | "boolean"
	Len   int    // function length (-1 when not a function)
	Attrs string // W E C as three 0/1 characters
	Ctor  bool   // has [[Construct]]
	Probe string // distinguishing call (JS expression), empty = none
	Want  string // expected String(result) of the probe
	Value string // for constants: a JS expression strictly equal to the value ("" = not checked)
}

// Obj is one intrinsic object.
type Obj struct {
	Expr  string // JS expression
	Class string // [[Class]]
	Proto string // JS expression for [[Prototype]] ("null" for none)
	// CallableNoCtor: object is callable.
	Callable bool
}

// table DSL: one line per owner:  owner : item item ...
// item forms:  name/len          method (W=1 E=0 C=1)
//
//	name/len!         constructor function (W=1 E=0 C=1, has [[Construct]])
//	name=kind:attrs   value property
const tableText = `
this : NaN=number:000 Infinity=number:000 undefined=undefined:000 eval/1 parseInt/2 parseFloat/1 isNaN/1 isFinite/1 decodeURI/1 decodeURIComponent/1 encodeURI/1 encodeURIComponent/1 Object/1! Function/1! Array/1! String/1! Boolean/1! Number/1! Date/7! RegExp/2! Error/1! EvalError/1! RangeError/1! ReferenceError/1! SyntaxError/1! TypeError/1! URIError/1! Math=object:101 JSON=object:101
Object : prototype=object:000 getPrototypeOf/1 getOwnPropertyDescriptor/2 getOwnPropertyNames/1 create/2 defineProperty/3 defineProperties/2 seal/1 freeze/1 preventExtensions/1 isSealed/1 isFrozen/1 isExtensible/1 keys/1
Object.prototype : constructor=function:101 toString/0 toLocaleString/0 valueOf/0 hasOwnProperty/1 isPrototypeOf/1 propertyIsEnumerable/1
Function : prototype=function:000
Function.prototype : constructor=function:101 toString/0 apply/2 call/1 bind/1
Array : prototype=object:000 isArray/1
Array.prototype : length=number:100 constructor=function:101 toString/0 toLocaleString/0 concat/1 join/1 pop/0 push/1 reverse/0 shift/0 slice/2 sort/1 splice/2 unshift/1 indexOf/1 lastIndexOf/1 every/1 some/1 forEach/1 map/1 filter/1 reduce/1 reduceRight/1
String : prototype=object:000 fromCharCode/1
String.prototype : length=number:000 constructor=function:101 toString/0 valueOf/0 charAt/1 charCodeAt/1 concat/1 indexOf/1 lastIndexOf/1 localeCompare/1 match/1 replace/2 search/1 slice/2 split/2 substring/2 toLowerCase/0 toLocaleLowerCase/0 toUpperCase/0 toLocaleUpperCase/0 trim/0
Boolean : prototype=object:000
Boolean.prototype : constructor=function:101 toString/0 valueOf/0
Number : prototype=object:000 MAX_VALUE=number:000 MIN_VALUE=number:000 NaN=number:000 NEGATIVE_INFINITY=number:000 POSITIVE_INFINITY=number:000
Number.prototype : constructor=function:101 toString/1 toLocaleString/0 valueOf/0 toFixed/1 toExponential/1 toPrecision/1
Math : E=number:000 LN10=number:000 LN2=number:000 LOG2E=number:000 LOG10E=number:000 PI=number:000 SQRT1_2=number:000 SQRT2=number:000 abs/1 acos/1 asin/1 atan/1 atan2/2 ceil/1 cos/1 exp/1 floor/1 log/1 max/2 min/2 pow/2 random/0 round/1 sin/1 sqrt/1 tan/1
Date : prototype=object:000 parse/1 UTC/7 now/0
Date.prototype : constructor=function:101 toString/0 toDateString/0 toTimeString/0 toLocaleString/0 toLocaleDateString/0 toLocaleTimeString/0 valueOf/0 getTime/0 getFullYear/0 getUTCFullYear/0 getMonth/0 getUTCMonth/0 getDate/0 getUTCDate/0 getDay/0 getUTCDay/0 getHours/0 getUTCHours/0 getMinutes/0 getUTCMinutes/0 getSeconds/0 getUTCSeconds/0 getMilliseconds/0 getUTCMilliseconds/0 getTimezoneOffset/0 setTime/1 setMilliseconds/1 setUTCMilliseconds/1 setSeconds/2 setUTCSeconds/2 setMinutes/3 setUTCMinutes/3 setHours/4 setUTCHours/4 setDate/1 setUTCDate/1 setMonth/2 setUTCMonth/2 setFullYear/3 setUTCFullYear/3 toUTCString/0 toISOString/0 toJSON/1
RegExp : prototype=object:000
RegExp.prototype : constructor=function:101 exec/1 test/1 toString/0
Error : prototype=object:000
Error.prototype : constructor=function:101 name=string:101 message=string:101 toString/0
EvalError : prototype=object:000
EvalError.prototype : constructor=function:101 name=string:101 message=string:101
RangeError : prototype=object:000
RangeError.prototype : constructor=function:101 name=string:101 message=string:101
ReferenceError : prototype=object:000
ReferenceError.prototype : constructor=function:101 name=string:101 message=string:101
SyntaxError : prototype=object:000
SyntaxError.prototype : constructor=function:101 name=string:101 message=string:101
TypeError : prototype=object:000
TypeError.prototype : constructor=function:101 name=string:101 message=string:101
URIError : prototype=object:000
URIError.prototype : constructor=function:101 name=string:101 message=string:101
JSON : parse/2 stringify/3
`

// Objects lists the intrinsic objects with [[Class]] and [[Prototype]] (15.x.3/15.x.4 preambles).
var Objects = []Obj{
	{"this", "", "", false}, // global object: class and prototype implementation-dependent (15.1)
	{"Object", "Function", "Function.prototype", true},
	{"Object.prototype", "Object", "null", false},
	{"Function", "Function", "Function.prototype", true},
	{"Function.prototype", "Function", "Object.prototype", true},
	{"Array", "Function", "Function.prototype", true},
	{"Array.prototype", "Array", "Object.prototype", false},
	{"String", "Function", "Function.prototype", true},
	{"String.prototype", "String", "Object.prototype", false},
	{"Boolean", "Function", "Function.prototype", true},
	{"Boolean.prototype", "Boolean", "Object.prototype", false},
	{"Number", "Function", "Function.prototype", true},
	{"Number.prototype", "Number", "Object.prototype", false},
	{"Math", "Math", "Object.prototype", false},
	{"Date", "Function", "Function.prototype", true},
	{"Date.prototype", "Date", "Object.prototype", false},
	{"RegExp", "Function", "Function.prototype", true},
	{"RegExp.prototype", "RegExp", "Object.prototype", false},
	{"Error", "Function", "Function.prototype", true},
	{"Error.prototype", "Error", "Object.prototype", false},
	{"EvalError", "Function", "Function.prototype", true},
	{"EvalError.prototype", "Error", "Error.prototype", false},
	{"RangeError", "Function", "Function.prototype", true},
	{"RangeError.prototype", "Error", "Error.prototype", false},
	{"ReferenceError", "Function", "Function.prototype", true},
	{"ReferenceError.prototype", "Error", "Error.prototype", false},
	{"SyntaxError", "Function", "Function.prototype", true},
	{"SyntaxError.prototype", "Error", "Error.prototype", false},
	{"TypeError", "Function", "Function.prototype", true},
	{"TypeError.prototype", "Error", "Error.prototype", false},
	{"URIError", "Function", "Function.prototype", true},
	{"URIError.prototype", "Error", "Error.prototype", false},
	{"JSON", "JSON", "Object.prototype", false},
}

// Values of constants (strict-equality expressions).
var values = map[string]string{
	"this.NaN": "NaN", "this.Infinity": "1/0", "this.undefined": "void 0",
	"Number.MAX_VALUE": "1.7976931348623157e308", "Number.MIN_VALUE": "5e-324", "Number.NaN": "NaN",
	"Number.NEGATIVE_INFINITY": "-1/0", "Number.POSITIVE_INFINITY": "1/0",
	"Math.E": "2.718281828459045", "Math.LN10": "2.302585092994046", "Math.LN2": "0.6931471805599453",
	"Math.LOG2E": "1.4426950408889634", "Math.LOG10E": "0.4342944819032518", "Math.PI": "3.141592653589793",
	"Math.SQRT1_2": "0.7071067811865476", "Math.SQRT2": "1.4142135623730951",
	"Array.prototype.length": "0", "String.prototype.length": "0",
	"Error.prototype.name": `"Error"`, "Error.prototype.message": `""`,
	"EvalError.prototype.name": `"EvalError"`, "EvalError.prototype.message": `""`,
	"RangeError.prototype.name": `"RangeError"`, "RangeError.prototype.message": `""`,
	"ReferenceError.prototype.name": `"ReferenceError"`, "ReferenceError.prototype.message": `""`,
	"SyntaxError.prototype.name": `"SyntaxError"`, "SyntaxError.prototype.message": `""`,
	"TypeError.prototype.name": `"TypeError"`, "TypeError.prototype.message": `""`,
	"URIError.prototype.name": `"URIError"`, "URIError.prototype.message": `""`,
	"Object.prototype.constructor": "Object", "Function.prototype.constructor": "Function",
	"Array.prototype.constructor": "Array", "String.prototype.constructor": "String",
	"Boolean.prototype.constructor": "Boolean", "Number.prototype.constructor": "Number",
	"Date.prototype.constructor": "Date", "RegExp.prototype.constructor": "RegExp",
	"Error.prototype.constructor": "Error", "EvalError.prototype.constructor": "EvalError",
	"RangeError.prototype.constructor": "RangeError", "ReferenceError.prototype.constructor": "ReferenceError",
	"SyntaxError.prototype.constructor": "SyntaxError", "TypeError.prototype.constructor": "TypeError",
	"URIError.prototype.constructor": "URIError",
}

// Distinguishing calls: each input/output pair is one that no other built-in
// bound under the name would produce.
var probes = map[string][2]string{
	"this.eval":                             {`var ex = "global"; (function(){ var ex = "local"; var r = eval("ex") + "|" + (0, eval)("ex"); eval("var ev = 5"); return r + "|" + ev + "|" + (typeof this.ev) })() + "|" + eval("1+2*3")`, "local|global|5|undefined|7"},
	"this.parseInt":                         {`parseInt("12px", 10) + "|" + parseInt("ff", 16)`, "12|255"},
	"this.parseFloat":                       {`parseFloat("1.5e1x")`, "15"},
	"this.isNaN":                            {`isNaN("x") + "|" + isNaN(1) + "|" + isNaN(1/0)`, "true|false|false"},
	"this.isFinite":                         {`isFinite("x") + "|" + isFinite(1) + "|" + isFinite(1/0)`, "false|true|false"},
	"this.decodeURI":                        {`decodeURI("%41%23%3B%2f%3a%c3%A9")`, "A%23%3B%2f%3a\u00e9"},
	"this.decodeURIComponent":               {`decodeURIComponent("%41%23%3B%2f%3a%c3%A9")`, "A#;/:\u00e9"},
	"this.encodeURI":                        {`encodeURI("a b#;")`, "a%20b#;"},
	"this.encodeURIComponent":               {`encodeURIComponent("a b#;")`, "a%20b%23%3B"},
	"this.Object":                           {`Object(1) instanceof Number && typeof new Object() === "object" && Object.prototype.toString.call(new Object("s"))`, "[object String]"},
	"this.Function":                         {`var fx = "global"; new Function("a", "b", "return a*b")(6, 7) + "|" + Function("return 5")() + "|" + (function(p) { var fx = "local"; with ({fx: "with"}) { return Function("return fx + typeof p")() + new Function("fx = 'written'; return ''")() + fx } })(1) + "|" + fx`, "42|5|globalundefinedwith|written"},
	"this.Array":                            {`new Array(3).length + "|" + Array(1, 2).join("-") + "|" + new Array("3").length`, "3|1-2|1"},
	"this.String":                           {`String(12) + typeof String(1) + typeof new String(1) + new String("ab").length`, "12stringobject2"},
	"this.Boolean":                          {`Boolean("") + "|" + Boolean("0") + "|" + typeof new Boolean(0) + "|" + typeof Boolean(0)`, "false|true|object|boolean"},
	"this.Number":                           {`Number("0x10") + "|" + Number() + "|" + typeof new Number(1) + "|" + Number("")`, "16|0|object|0"},
	"this.Date":                             {`new Date(0).getTime() + "|" + typeof Date() + "|" + new Date(2000, 0).getFullYear() + "|" + new Date(86400000).getUTCDate()`, "0|string|2000|2"},
	"this.RegExp":                           {`new RegExp("a+", "g").source + "|" + RegExp("b", "i").ignoreCase + "|" + new RegExp("a+").exec("caab")[0]`, "a+|true|aa"},
	"this.Error":                            {`new Error("m").message + "|" + Error("k").message + "|" + (Error("x") instanceof Error) + "|" + new Error("q").name`, "m|k|true|Error"},
	"this.EvalError":                        {`var e = new EvalError("m"); e.name + "|" + e.message + "|" + (e instanceof Error) + (e instanceof EvalError) + (e instanceof TypeError)`, "EvalError|m|truetruefalse"},
	"this.RangeError":                       {`var e = new RangeError("m"); e.name + "|" + e.message + "|" + (e instanceof Error) + (e instanceof RangeError) + (e instanceof TypeError)`, "RangeError|m|truetruefalse"},
	"this.ReferenceError":                   {`var e = new ReferenceError("m"); e.name + "|" + e.message + "|" + (e instanceof Error) + (e instanceof ReferenceError) + (e instanceof TypeError)`, "ReferenceError|m|truetruefalse"},
	"this.SyntaxError":                      {`var e = new SyntaxError("m"); e.name + "|" + e.message + "|" + (e instanceof Error) + (e instanceof SyntaxError) + (e instanceof TypeError)`, "SyntaxError|m|truetruefalse"},
	"this.TypeError":                        {`var e = new TypeError("m"); e.name + "|" + e.message + "|" + (e instanceof Error) + (e instanceof TypeError) + (e instanceof RangeError)`, "TypeError|m|truetruefalse"},
	"this.URIError":                         {`var e = new URIError("m"); e.name + "|" + e.message + "|" + (e instanceof Error) + (e instanceof URIError) + (e instanceof TypeError)`, "URIError|m|truetruefalse"},
	"Object.getPrototypeOf":                 {`Object.getPrototypeOf([]) === Array.prototype`, "true"},
	"Object.getOwnPropertyDescriptor":       {`var d = Object.getOwnPropertyDescriptor([1], "length"); d.value + "|" + d.writable + d.enumerable + d.configurable`, "1|truefalsefalse"},
	"Object.getOwnPropertyNames":            {`Object.getOwnPropertyNames([7]).sort().join()`, "0,length"},
	"Object.create":                         {`var p = {a: 1}; var o = Object.create(p, {b: {value: 2}}); o.a + "|" + o.b + "|" + (Object.getPrototypeOf(o) === p) + "|" + Object.keys(o).length`, "1|2|true|0"},
	"Object.defineProperty":                 {`var o = {}; var r = Object.defineProperty(o, "x", {value: 3}); (r === o) + "|" + o.x + "|" + Object.keys(o).length`, "true|3|0"},
	"Object.defineProperties":               {`var o = {}; Object.defineProperties(o, {x: {value: 3, enumerable: true}, y: {value: 4}}); o.x + o.y + "|" + Object.keys(o).join()`, "7|x"},
	"Object.seal":                           {`var o = {a: 1}; Object.seal(o); o.a = 2; delete o.a; o.b = 1; o.a + "|" + ("b" in o) + "|" + Object.isSealed(o) + Object.isFrozen(o)`, "2|false|truefalse"},
	"Object.freeze":                         {`var o = {a: 1}; Object.freeze(o); o.a = 2; delete o.a; o.b = 1; o.a + "|" + ("b" in o) + "|" + Object.isFrozen(o)`, "1|false|true"},
	"Object.preventExtensions":              {`var o = {a: 1}; Object.preventExtensions(o); o.a = 2; o.b = 1; var r = o.a + "|" + ("b" in o); delete o.a; r + "|" + ("a" in o) + Object.isSealed({})`, "2|false|falsefalse"},
	"Object.isSealed":                       {`Object.isSealed(Object.seal({a: 1})) + "|" + Object.isSealed({a: 1}) + "|" + Object.isSealed(Object.preventExtensions({a: 1})) + "|" + Object.isSealed(Object.preventExtensions({}))`, "true|false|false|true"},
	"Object.isFrozen":                       {`Object.isFrozen(Object.seal({a: 1})) + "|" + Object.isFrozen(Object.freeze({a: 1})) + "|" + Object.isFrozen({})`, "false|true|false"},
	"Object.isExtensible":                   {`Object.isExtensible({}) + "|" + Object.isExtensible(Object.preventExtensions({}))`, "true|false"},
	"Object.keys":                           {`Object.keys({b: 1, a: 2}).join() + "|" + Object.keys([5]).join()`, "b,a|0"},
	"Object.prototype.toString":             {`Object.prototype.toString.call([]) + Object.prototype.toString.call(null)`, "[object Array][object Null]"},
	"Object.prototype.toLocaleString":       {`Object.prototype.toLocaleString.call({toString: function() { return "T" }})`, "T"},
	"Object.prototype.valueOf":              {`var o = {}; (o.valueOf() === o) + "|" + typeof Object.prototype.valueOf.call(1)`, "true|object"},
	"Object.prototype.hasOwnProperty":       {`({a: 1}).hasOwnProperty("a") + "|" + ({}).hasOwnProperty("toString")`, "true|false"},
	"Object.prototype.isPrototypeOf":        {`var o = {}, c = Object.create(o); Array.prototype.isPrototypeOf([]) + "|" + Array.prototype.isPrototypeOf({}) + "|" + Object.prototype.isPrototypeOf([]) + "|" + o.isPrototypeOf(o) + "|" + o.isPrototypeOf(c) + "|" + c.isPrototypeOf(o) + "|" + Object.prototype.isPrototypeOf(Object.prototype) + "|" + Object.prototype.isPrototypeOf(1)`, "true|false|true|false|true|false|false|false"},
	"Object.prototype.propertyIsEnumerable": {`[1].propertyIsEnumerable("0") + "|" + [1].propertyIsEnumerable("length") + "|" + ({}).propertyIsEnumerable("toString") + "|" + Object.create({a: 1}).propertyIsEnumerable("a") + "|" + Object.create([7]).propertyIsEnumerable("0") + "|" + ({a: 1}).propertyIsEnumerable("a")`, "true|false|false|false|false|true"},
	"Function.prototype.toString":           {`typeof Function.prototype.toString.call(function() {}) + "|" + (function() { try { Function.prototype.toString.call({}); return "no" } catch (e) { return e instanceof TypeError } })()`, "string|true"},
	"Function.prototype.apply":              {`(function(a, b) { return this.x + a + b }).apply({x: 1}, [2, 3])`, "6"},
	"Function.prototype.call":               {`(function(a, b) { return this.x + a + b }).call({x: 1}, 2, 3)`, "6"},
	"Function.prototype.bind":               {`var f = (function(a, b) { return this.x + a + b }).bind({x: 1}, 2); f(3) + "|" + f.length + "|" + f.bind({x: 100}, 10)(1000) + "|" + f.call({x: 100}, 3)`, "6|1|13|6"},
	"Array.isArray":                         {`Array.isArray([]) + "|" + Array.isArray({length: 0}) + "|" + Array.isArray(Array.prototype)`, "true|false|true"},
	"Array.prototype.toString":              {`[1, [2, 3]].toString() + "|" + Array.prototype.toString.call({join: function() { return "J" }})`, "1,2,3|J"},
	"Array.prototype.toLocaleString":        {`[{toLocaleString: function() { return "L" }, toString: function() { return "S" }}, 2].toLocaleString().charAt(0)`, "L"},
	"Array.prototype.concat":                {`[1].concat([2, [3]], 4).length + "|" + [1].concat(2).join("")`, "4|12"},
	"Array.prototype.join":                  {`[1, null, 3].join("-") + "|" + [1, 2].join()`, "1--3|1,2"},
	"Array.prototype.pop":                   {`var a = [1, 2, 3]; a.pop() + "|" + a.join()`, "3|1,2"},
	"Array.prototype.push":                  {`var a = [1]; a.push(2, 3) + "|" + a.join()`, "3|1,2,3"},
	"Array.prototype.reverse":               {`[1, 2, 3].reverse().join()`, "3,2,1"},
	"Array.prototype.shift":                 {`var a = [1, 2, 3]; a.shift() + "|" + a.join()`, "1|2,3"},
	"Array.prototype.slice":                 {`[1, 2, 3, 4].slice(1, -1).join()`, "2,3"},
	"Array.prototype.sort":                  {`[3, 1, 10, 2].sort().join() + "|" + [3, 1, 10, 2].sort(function(a, b) { return a - b }).join()`, "1,10,2,3|1,2,3,10"},
	"Array.prototype.splice":                {`var a = [1, 2, 3, 4]; a.splice(1, 2, 9).join() + "|" + a.join()`, "2,3|1,9,4"},
	"Array.prototype.unshift":               {`var a = [3]; a.unshift(1, 2) + "|" + a.join()`, "3|1,2,3"},
	"Array.prototype.indexOf":               {`[1, 2, 1].indexOf(1) + "|" + [1, 2, 1].indexOf(1, 1) + "|" + [1].indexOf(3)`, "0|2|-1"},
	"Array.prototype.lastIndexOf":           {`[1, 2, 1].lastIndexOf(1) + "|" + [1, 2, 1].lastIndexOf(1, 1) + "|" + [1].lastIndexOf(3)`, "2|0|-1"},
	"Array.prototype.every":                 {`[1, 2].every(function(x) { return x > 0 }) + "|" + [1, 2].every(function(x) { return x > 1 }) + "|" + [].every(function() { return false })`, "true|false|true"},
	"Array.prototype.some":                  {`[1, 2].some(function(x) { return x > 1 }) + "|" + [1, 2].some(function(x) { return x > 2 }) + "|" + [].some(function() { return true })`, "true|false|false"},
	"Array.prototype.forEach":               {`var s = ""; var r = [1, 2].forEach(function(x, i) { s += x + ":" + i + ";" }); s + r`, "1:0;2:1;undefined"},
	"Array.prototype.map":                   {`[1, 2].map(function(x) { return x * 2 }).join()`, "2,4"},
	"Array.prototype.filter":                {`[1, 2, 3].filter(function(x) { return x % 2 }).join()`, "1,3"},
	"Array.prototype.reduce":                {`["a", "b", "c"].reduce(function(a, x) { return a + x })`, "abc"},
	"Array.prototype.reduceRight":           {`["a", "b", "c"].reduceRight(function(a, x) { return a + x })`, "cba"},
	"String.fromCharCode":                   {`String.fromCharCode(97, 65601)`, "aA"},
	"String.prototype.toString":             {`new String("x").toString() + typeof new String("x").toString() + (function() { try { String.prototype.toString.call(1); return "no" } catch (e) { return e instanceof TypeError } })()`, "xstringtrue"},
	"String.prototype.valueOf":              {`typeof new String("x").valueOf() + (function() { try { String.prototype.valueOf.call({}); return "no" } catch (e) { return e instanceof TypeError } })()`, "stringtrue"},
	"String.prototype.charAt":               {`"abc".charAt(1) + "|" + "abc".charAt(5) + "|"`, "b||"},
	"String.prototype.charCodeAt":           {`"abc".charCodeAt(1) + "|" + "abc".charCodeAt(5)`, "98|NaN"},
	"String.prototype.concat":               {`"a".concat("b", 1, null)`, "ab1null"},
	"String.prototype.indexOf":              {`"abcab".indexOf("b") + "|" + "abcab".indexOf("b", 2) + "|" + "a".indexOf("z")`, "1|4|-1"},
	"String.prototype.lastIndexOf":          {`"abcab".lastIndexOf("b") + "|" + "abcab".lastIndexOf("b", 3) + "|" + "a".lastIndexOf("z")`, "4|1|-1"},
	"String.prototype.localeCompare":        {`"a".localeCompare("a") + "|" + ("a".localeCompare("b") < 0) + "|" + ("b".localeCompare("a") > 0)`, "0|true|true"},
	"String.prototype.match":                {`"a1b22".match(/\d+/g).join() + "|" + "a1b22".match(/(\d)(\d)/)[2] + "|" + "x".match(/y/) + "|" + "abc".match().length + "|" + "abc".match()[0].length`, "1,22|2|null|1|0"},
	"String.prototype.replace":              {`"aXbX".replace("X", "-") + "|" + "aXbX".replace(/X/g, "-")`, "a-bX|a-b-"},
	"String.prototype.search":               {`var re = /a/g; re.lastIndex = 3; "abc".search(/c/) + "|" + "abc".search("z") + "|" + "abca".search(re) + "|" + re.lastIndex + "|" + "abc".search() + "|" + "xundefined".search(undefined)`, "2|-1|0|3|0|0"},
	"String.prototype.slice":                {`"abcd".slice(1, -1) + "|" + "abcd".slice(3, 1) + "|"`, "bc||"},
	"String.prototype.split":                {`"a,b,c".split(",", 2).join("|") + "#" + "ab".split("").length`, "a|b#2"},
	"String.prototype.substring":            {`"abcd".substring(3, 1) + "|" + "abcd".substring(-1, 2)`, "bc|ab"},
	"String.prototype.toLowerCase":          {`"aBc".toLowerCase()`, "abc"},
	"String.prototype.toLocaleLowerCase":    {`"aBc".toLocaleLowerCase()`, "abc"},
	"String.prototype.toUpperCase":          {`"aBc".toUpperCase()`, "ABC"},
	"String.prototype.toLocaleUpperCase":    {`"aBc".toLocaleUpperCase()`, "ABC"},
	"String.prototype.trim":                 {`"[" + " \t\n a b \r\n".trim() + "]"`, "[a b]"},
	"Boolean.prototype.toString":            {`true.toString() + new Boolean(false).toString() + (function() { try { Boolean.prototype.toString.call(1); return "no" } catch (e) { return e instanceof TypeError } })()`, "truefalsetrue"},
	"Boolean.prototype.valueOf":             {`typeof new Boolean(false).valueOf() + new Boolean(false).valueOf()`, "booleanfalse"},
	"Number.prototype.toString":             {`(255).toString(16) + "|" + (255).toString() + "|" + (-5).toString(2)`, "ff|255|-101"},
	"Number.prototype.toLocaleString":       {`typeof (1).toLocaleString()`, "string"},
	"Number.prototype.valueOf":              {`typeof new Number(3).valueOf() + new Number(3).valueOf()`, "number3"},
	"Number.prototype.toFixed":              {`(1.005).toFixed(1) + "|" + (12).toFixed(2) + "|" + (1e21).toFixed(2)`, "1.0|12.00|1e+21"},
	"Number.prototype.toExponential":        {`(12345).toExponential(2).slice(0, 5) + "|" + (0).toExponential(1).slice(0, 4)`, "1.23e|0.0e"},
	"Number.prototype.toPrecision":          {`(12345).toPrecision(2).slice(0, 4) + "|" + (123.456).toPrecision(4) + "|" + (0.0123).toPrecision(1)`, "1.2e|123.5|0.01"},
	"Math.abs":                              {`Math.abs(-2.5) + "|" + Math.abs(3)`, "2.5|3"},
	"Math.acos":                             {`Math.acos(1) + "|" + Math.acos(2) + "|" + (Math.abs(Math.acos(0) - Math.PI / 2) < 1e-15)`, "0|NaN|true"},
	"Math.asin":                             {`Math.asin(0) + "|" + Math.asin(2) + "|" + (Math.abs(Math.asin(1) - Math.PI / 2) < 1e-15)`, "0|NaN|true"},
	"Math.atan":                             {`Math.atan(0) + "|" + (Math.abs(Math.atan(1) - Math.PI / 4) < 1e-15) + "|" + (Math.abs(Math.atan(1/0) - Math.PI / 2) < 1e-15)`, "0|true|true"},
	"Math.atan2":                            {`Math.atan2(0, 1) + "|" + (Math.abs(Math.atan2(1, 0) - Math.PI / 2) < 1e-15) + "|" + (Math.abs(Math.atan2(0, -1) - Math.PI) < 1e-15)`, "0|true|true"},
	"Math.ceil":                             {`Math.ceil(1.2) + "|" + Math.ceil(-1.2) + "|" + Math.ceil(2)`, "2|-1|2"},
	"Math.cos":                              {`Math.cos(0) + "|" + (Math.abs(Math.cos(Math.PI) + 1) < 1e-15)`, "1|true"},
	"Math.exp":                              {`Math.exp(0) + "|" + (Math.abs(Math.exp(1) - Math.E) < 1e-15) + "|" + Math.exp(-1/0)`, "1|true|0"},
	"Math.floor":                            {`Math.floor(1.8) + "|" + Math.floor(-1.2) + "|" + Math.floor(2)`, "1|-2|2"},
	"Math.log":                              {`Math.log(1) + "|" + (Math.abs(Math.log(Math.E) - 1) < 1e-15) + "|" + Math.log(-1) + "|" + Math.log(0)`, "0|true|NaN|-Infinity"},
	"Math.max":                              {`Math.max(1, 3, 2) + "|" + Math.max() + "|" + Math.max(1, NaN)`, "3|-Infinity|NaN"},
	"Math.min":                              {`Math.min(1, 3, -2) + "|" + Math.min() + "|" + Math.min(1, NaN)`, "-2|Infinity|NaN"},
	"Math.pow":                              {`Math.pow(2, 10) + "|" + Math.pow(4, 0.5) + "|" + Math.pow(2, -1)`, "1024|2|0.5"},
	"Math.random":                           {`var r = Math.random(); (typeof r) + (r >= 0 && r < 1)`, "numbertrue"},
	"Math.round":                            {`Math.round(2.5) + "|" + Math.round(-2.5) + "|" + Math.round(1.4) + "|" + Math.round(-1.6)`, "3|-2|1|-2"},
	"Math.sin":                              {`Math.sin(0) + "|" + (Math.abs(Math.sin(Math.PI / 2) - 1) < 1e-15)`, "0|true"},
	"Math.sqrt":                             {`Math.sqrt(9) + "|" + Math.sqrt(-1) + "|" + Math.sqrt(2.25)`, "3|NaN|1.5"},
	"Math.tan":                              {`Math.tan(0) + "|" + (Math.abs(Math.tan(Math.PI / 4) - 1) < 1e-15)`, "0|true"},
	"Date.parse":                            {`Date.parse("1970-01-02T00:00:00.000Z") + "|" + Date.parse("2000-01-01T00:00:00Z")`, "86400000|946684800000"},
	"Date.UTC":                              {`Date.UTC(1970, 0, 2) + "|" + Date.UTC(2000, 1, 29, 1, 2, 3, 4)`, "86400000|951786123004"},
	"Date.now":                              {`var n = Date.now(); (typeof n) + (n > 1e12) + (n === Math.floor(n))`, "numbertruetrue"},
	"Date.prototype.toString":               {`typeof new Date(0).toString() + (new Date(NaN).toString())`, "stringInvalid Date"},
	"Date.prototype.toDateString":           {`var s = new Date(2000, 5, 15, 12).toDateString(); (s.indexOf("2000") >= 0) + "|" + (s.indexOf("12:") < 0)`, "true|true"},
	"Date.prototype.toTimeString":           {`var s = new Date(2000, 5, 15, 12, 34, 56).toTimeString(); (s.indexOf("12:34:56") >= 0) + "|" + (s.indexOf("2000") < 0)`, "true|true"},
	"Date.prototype.toLocaleString":         {`typeof new Date(0).toLocaleString()`, "string"},
	"Date.prototype.toLocaleDateString":     {`var s = new Date(2000, 5, 15, 12, 34, 56).toLocaleDateString(); (typeof s) + (s.indexOf("34:56") < 0)`, "stringtrue"},
	"Date.prototype.toLocaleTimeString":     {`var s = new Date(2000, 5, 15, 12, 34, 56).toLocaleTimeString(); (typeof s) + (s.indexOf("34:56") >= 0)`, "stringtrue"},
	"Date.prototype.valueOf":                {`new Date(123).valueOf()`, "123"},
	"Date.prototype.getTime":                {`new Date(123).getTime()`, "123"},
	"Date.prototype.getFullYear":            {`new Date(2001, 2, 3, 4, 5, 6, 7).getFullYear()`, "2001"},
	"Date.prototype.getUTCFullYear":         {`new Date(Date.UTC(2001, 2, 3, 4, 5, 6, 7)).getUTCFullYear()`, "2001"},
	"Date.prototype.getMonth":               {`new Date(2001, 2, 3, 4, 5, 6, 7).getMonth()`, "2"},
	"Date.prototype.getUTCMonth":            {`new Date(Date.UTC(2001, 2, 3, 4, 5, 6, 7)).getUTCMonth()`, "2"},
	"Date.prototype.getDate":                {`new Date(2001, 2, 3, 4, 5, 6, 7).getDate()`, "3"},
	"Date.prototype.getUTCDate":             {`new Date(Date.UTC(2001, 2, 3, 4, 5, 6, 7)).getUTCDate()`, "3"},
	"Date.prototype.getDay":                 {`new Date(2001, 2, 3, 4, 5, 6, 7).getDay()`, "6"},
	"Date.prototype.getUTCDay":              {`new Date(Date.UTC(2001, 2, 3, 12, 5, 6, 7)).getUTCDay()`, "6"},
	"Date.prototype.getHours":               {`new Date(2001, 2, 3, 4, 5, 6, 7).getHours()`, "4"},
	"Date.prototype.getUTCHours":            {`new Date(Date.UTC(2001, 2, 3, 4, 5, 6, 7)).getUTCHours()`, "4"},
	"Date.prototype.getMinutes":             {`new Date(2001, 2, 3, 4, 5, 6, 7).getMinutes()`, "5"},
	"Date.prototype.getUTCMinutes":          {`new Date(Date.UTC(2001, 2, 3, 4, 5, 6, 7)).getUTCMinutes()`, "5"},
	"Date.prototype.getSeconds":             {`new Date(2001, 2, 3, 4, 5, 6, 7).getSeconds()`, "6"},
	"Date.prototype.getUTCSeconds":          {`new Date(Date.UTC(2001, 2, 3, 4, 5, 6, 7)).getUTCSeconds()`, "6"},
	"Date.prototype.getMilliseconds":        {`new Date(2001, 2, 3, 4, 5, 6, 7).getMilliseconds()`, "7"},
	"Date.prototype.getUTCMilliseconds":     {`new Date(Date.UTC(2001, 2, 3, 4, 5, 6, 7)).getUTCMilliseconds()`, "7"},
	"Date.prototype.getTimezoneOffset":      {`var d = new Date(2001, 2, 3, 4, 5, 6, 7); (d.getTimezoneOffset() === (Date.UTC(2001, 2, 3, 4, 5, 6, 7) - d.getTime()) / -60000)`, "true"},
	"Date.prototype.setTime":                {`var d = new Date(0); d.setTime(5) + "|" + d.getTime()`, "5|5"},
	"Date.prototype.setMilliseconds":        {`var d = new Date(2001, 2, 3, 4, 5, 6, 7); d.setMilliseconds(9); d.getMilliseconds() + "|" + d.getSeconds()`, "9|6"},
	"Date.prototype.setUTCMilliseconds":     {`var d = new Date(0); d.setUTCMilliseconds(9) + "|" + d.getTime()`, "9|9"},
	"Date.prototype.setSeconds":             {`var d = new Date(2001, 2, 3, 4, 5, 6, 7); d.setSeconds(9, 1); d.getSeconds() + "|" + d.getMilliseconds() + "|" + d.getMinutes()`, "9|1|5"},
	"Date.prototype.setUTCSeconds":          {`var d = new Date(0); d.setUTCSeconds(9, 1) + "|" + d.getTime()`, "9001|9001"},
	"Date.prototype.setMinutes":             {`var d = new Date(2001, 2, 3, 4, 5, 6, 7); d.setMinutes(9, 1, 2); d.getMinutes() + "|" + d.getSeconds() + "|" + d.getMilliseconds() + "|" + d.getHours()`, "9|1|2|4"},
	"Date.prototype.setUTCMinutes":          {`var d = new Date(0); d.setUTCMinutes(1, 2, 3) + "|" + d.getTime()`, "62003|62003"},
	"Date.prototype.setHours":               {`var d = new Date(2001, 2, 3, 4, 5, 6, 7); d.setHours(9, 1, 2, 3); d.getHours() + "|" + d.getMinutes() + "|" + d.getSeconds() + "|" + d.getMilliseconds() + "|" + d.getDate()`, "9|1|2|3|3"},
	"Date.prototype.setUTCHours":            {`var d = new Date(0); d.setUTCHours(1, 2, 3, 4) + "|" + d.getTime()`, "3723004|3723004"},
	"Date.prototype.setDate":                {`var d = new Date(2001, 2, 3, 4, 5, 6, 7); d.setDate(9); d.getDate() + "|" + d.getMonth() + "|" + d.getHours()`, "9|2|4"},
	"Date.prototype.setUTCDate":             {`var d = new Date(0); d.setUTCDate(3) + "|" + d.getTime()`, "172800000|172800000"},
	"Date.prototype.setMonth":               {`var d = new Date(2001, 2, 3, 4, 5, 6, 7); d.setMonth(5, 9); d.getMonth() + "|" + d.getDate() + "|" + d.getFullYear()`, "5|9|2001"},
	"Date.prototype.setUTCMonth":            {`var d = new Date(0); d.setUTCMonth(1, 2) + "|" + d.getTime()`, "2764800000|2764800000"},
	"Date.prototype.setFullYear":            {`var d = new Date(2001, 2, 3, 4, 5, 6, 7); d.setFullYear(1999, 5, 9); d.getFullYear() + "|" + d.getMonth() + "|" + d.getDate() + "|" + d.getHours()`, "1999|5|9|4"},
	"Date.prototype.setUTCFullYear":         {`var d = new Date(0); d.setUTCFullYear(1971, 1, 2) + "|" + d.getTime()`, "34300800000|34300800000"},
	"Date.prototype.toUTCString":            {`var s = new Date(0).toUTCString(); (s.indexOf("1970") >= 0) + "|" + (s.indexOf("00:00:00") >= 0) + "|" + (s.indexOf("T") < 0 || s.indexOf("GMT") >= 0 || s.indexOf("UTC") >= 0)`, "true|true|true"},
	"Date.prototype.toISOString":            {`new Date(0).toISOString() + "|" + new Date(951786123004).toISOString()`, "1970-01-01T00:00:00.000Z|2000-02-29T01:02:03.004Z"},
	"Date.prototype.toJSON":                 {`new Date(0).toJSON() + "|" + new Date(NaN).toJSON() + "|" + Date.prototype.toJSON.call({toISOString: function() { return "I" }, valueOf: function() { return 1 }})`, "1970-01-01T00:00:00.000Z|null|I"},
	"RegExp.prototype.exec":                 {`var m = /b(c)?/.exec("abd"); m.index + "|" + m[0] + "|" + m[1] + "|" + m.input + "|" + /z/.exec("a")`, "1|b|undefined|abd|null"},
	"RegExp.prototype.test":                 {`/b/.test("abc") + "|" + /z/.test("abc")`, "true|false"},
	"RegExp.prototype.toString":             {`/a\/b/gi.toString() + "|" + new RegExp("x", "m").toString()`, "/a\\/b/gi|/x/m"},
	"Error.prototype.toString":              {`new Error("m").toString() + "|" + Error.prototype.toString.call({name: "N", message: ""}) + "|" + Error.prototype.toString.call({message: "M"}) + "|" + Error.prototype.toString.call({name: "", message: "M"})`, "Error: m|N|Error: M|M"},
	"JSON.parse":                            {`var o = JSON.parse('{"a":[1,{"b":null}]}'); o.a.length + "|" + o.a[1].b + "|" + JSON.parse("1e1")`, "2|null|10"},
	"JSON.stringify":                        {`JSON.stringify({a: [1, {b: null}], c: "x"}) + "|" + JSON.stringify("a\"")`, `{"a":[1,{"b":null}],"c":"x"}|"a\""`},
}

// Rows is the parsed table.
var Rows []Row

func init() {
	for _, line := range strings.Split(tableText, "\n") {
		line = strings.TrimSpace(line)
		if line == "" {
			continue
		}
		parts := strings.SplitN(line, " : ", 2)
		owner := parts[0]
		for _, item := range strings.Fields(parts[1]) {
			var r Row
			r.Owner = owner
			r.Len = -1
			if i := strings.IndexByte(item, '='); i >= 0 {
				r.Name = item[:i]
				ka := strings.SplitN(item[i+1:], ":", 2)
				r.Kind, r.Attrs = ka[0], ka[1]
			} else {
				i := strings.IndexByte(item, '/')
				r.Name = item[:i]
				rest := item[i+1:]
				if strings.HasSuffix(rest, "!") {
					r.Ctor = true
					rest = strings.TrimSuffix(rest, "!")
				}
				n := 0
				for _, c := range rest {
					n = n*10 + int(c-'0')
				}
				r.Len = n
				r.Kind = "function"
				r.Attrs = "101"
			}
			key := owner + "." + r.Name
			if p, ok := probes[key]; ok {
				r.Probe, r.Want = p[0], p[1]
			}
			if v, ok := values[key]; ok {
				r.Value = v
			}
			Rows = append(Rows, r)
		}
	}
}

// MissingProbes lists function rows without a distinguishing call (table self-check).
func MissingProbes() []string {
	var out []string
	for _, r := range Rows {
		if r.Kind == "function" && r.Len >= 0 && r.Probe == "" {
			out = append(out, r.Owner+"."+r.Name)
		}
	}
	return out
}
