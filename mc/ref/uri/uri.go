// Package uri is the reference model of the ES5.1 global URI functions and the
// Annex B escape/unescape pair, transcribed clause by clause over UTF-16 code
// units ([]uint16):
//
//	15.1.3     Encode(string, unescapedSet) / Decode(string, reservedSet)
//	15.1.3.1-4 decodeURI, decodeURIComponent, encodeURI, encodeURIComponent
//	B.2.1/2    escape, unescape
//	15.1.2.4/5 isNaN, isFinite (on the ToNumber result)
//
// Nothing here uses net/url, unicode/utf8 or unicode/utf16: the UTF-8
// transformation is written out from the table in 15.1.3 so that the model is
// independent of the library calls the implementation under test is built on.
package uri

import "math"

const (
	uriAlpha      = "abcdefghijklmnopqrstuvwxyzABCDEFGHIJKLMNOPQRSTUVWXYZ"
	decimalDigit  = "0123456789"
	uriMark       = "-_.!~*'()"
	uriReserved   = ";/?:@&=+$,"
	uriUnescaped  = uriAlpha + decimalDigit + uriMark
	escapeKeepSet = uriAlpha + decimalDigit + "@*_+-./" // B.2.1 step 6: the 69 characters
)

func set(chars string) [128]bool {
	var s [128]bool
	for i := 0; i < len(chars); i++ {
		s[chars[i]] = true
	}
	return s
}

var (
	// 15.1.3.3 encodeURI: unescapedURISet = uriReserved + uriUnescaped + "#"
	unescapedURISet = set(uriReserved + uriUnescaped + "#")
	// 15.1.3.4 encodeURIComponent: unescapedURIComponentSet = uriUnescaped
	unescapedURIComponentSet = set(uriUnescaped)
	// 15.1.3.1 decodeURI: reservedURISet = uriReserved + "#"
	reservedURISet = set(uriReserved + "#")
	// 15.1.3.2 decodeURIComponent: reservedURIComponentSet is empty
	reservedURIComponentSet = set("")
	escapeKeep              = set(escapeKeepSet)
)

func in(s *[128]bool, c uint16) bool { return c < 128 && s[c] }

const hexUpper = "0123456789ABCDEF"

// utf8Octets is the UTF-8 transformation of 15.1.3 (table "UTF-8 Encodings")
// for a code point V in 0..0x10FFFF that is not a surrogate.
func utf8Octets(v uint32) []byte {
	switch {
	case v <= 0x7F:
		return []byte{byte(v)}
	case v <= 0x7FF:
		return []byte{0xC0 | byte(v>>6), 0x80 | byte(v&0x3F)}
	case v <= 0xFFFF:
		return []byte{0xE0 | byte(v>>12), 0x80 | byte((v>>6)&0x3F), 0x80 | byte(v&0x3F)}
	default:
		return []byte{0xF0 | byte(v>>18), 0x80 | byte((v>>12)&0x3F), 0x80 | byte((v>>6)&0x3F), 0x80 | byte(v&0x3F)}
	}
}

// encode is 15.1.3 Encode. ok=false means URIError.
func encode(s []uint16, unescaped *[128]bool) (r []uint16, ok bool) {
	strLen := len(s)
	r = []uint16{}
	k := 0
	for {
		if k == strLen { // 4.a
			return r, true
		}
		c := s[k]             // 4.b
		if in(unescaped, c) { // 4.c
			r = append(r, c)
		} else { // 4.d
			if c >= 0xDC00 && c <= 0xDFFF { // i
				return nil, false
			}
			var v uint32
			if c < 0xD800 || c > 0xDBFF { // ii
				v = uint32(c)
			} else { // iii
				k++
				if k == strLen {
					return nil, false
				}
				kChar := s[k]
				if kChar < 0xDC00 || kChar > 0xDFFF {
					return nil, false
				}
				v = (uint32(c)-0xD800)*0x400 + (uint32(kChar) - 0xDC00) + 0x10000
			}
			for _, o := range utf8Octets(v) { // iv-vi
				r = append(r, '%', uint16(hexUpper[o>>4]), uint16(hexUpper[o&15]))
			}
		}
		k++ // 4.e
	}
}

func hexVal(c uint16) (int, bool) {
	switch {
	case c >= '0' && c <= '9':
		return int(c - '0'), true
	case c >= 'a' && c <= 'f':
		return int(c-'a') + 10, true
	case c >= 'A' && c <= 'F':
		return int(c-'A') + 10, true
	}
	return 0, false
}

// hex2 reads the two hexadecimal digits at s[k], s[k+1].
func hex2(s []uint16, k int) (int, bool) {
	if k+1 >= len(s) {
		return 0, false
	}
	h, ok1 := hexVal(s[k])
	l, ok2 := hexVal(s[k+1])
	if !ok1 || !ok2 {
		return 0, false
	}
	return h<<4 | l, true
}

// utf8Value applies the inverse UTF-8 transformation to n octets whose shape
// (lead byte with n leading ones, continuation bytes 10xxxxxx) was already
// verified. ok=false when the octets are not a valid encoding of a Unicode
// code point: overlong forms, surrogate code points and values above 0x10FFFF
// (ES5.1 15.1.3 step 4.d.vii.7 and the closing NOTE: "Implementations of the
// Decode algorithm are required to throw a URIError when encountering such
// invalid sequences").
func utf8Value(o []byte) (uint32, bool) {
	var v uint32
	switch len(o) {
	case 2:
		v = uint32(o[0]&0x1F)<<6 | uint32(o[1]&0x3F)
		if v < 0x80 {
			return 0, false
		}
	case 3:
		v = uint32(o[0]&0x0F)<<12 | uint32(o[1]&0x3F)<<6 | uint32(o[2]&0x3F)
		if v < 0x800 || (v >= 0xD800 && v <= 0xDFFF) {
			return 0, false
		}
	case 4:
		v = uint32(o[0]&0x07)<<18 | uint32(o[1]&0x3F)<<12 | uint32(o[2]&0x3F)<<6 | uint32(o[3]&0x3F)
		if v < 0x10000 || v > 0x10FFFF {
			return 0, false
		}
	default:
		return 0, false
	}
	return v, true
}

// decode is 15.1.3 Decode. ok=false means URIError.
func decode(s []uint16, reserved *[128]bool) (r []uint16, ok bool) {
	strLen := len(s)
	r = []uint16{}
	k := 0
	for {
		if k == strLen { // 4.a
			return r, true
		}
		c := s[k] // 4.b
		if c != '%' {
			r = append(r, c) // 4.c
		} else { // 4.d
			start := k
			if k+2 >= strLen { // ii
				return nil, false
			}
			b, okh := hex2(s, k+1) // iii-iv
			if !okh {
				return nil, false
			}
			k += 2           // v
			if b&0x80 == 0 { // vi
				cc := uint16(b)
				if !in(reserved, cc) {
					r = append(r, cc)
				} else {
					r = append(r, s[start:k+1]...)
				}
			} else { // vii
				n := 0
				for (b<<uint(n))&0x80 != 0 {
					n++
				}
				if n == 1 || n > 4 { // 2
					return nil, false
				}
				octets := []byte{byte(b)} // 3-4
				if k+3*(n-1) >= strLen {  // 5
					return nil, false
				}
				for j := 1; j < n; j++ { // 6-7
					k++
					if s[k] != '%' {
						return nil, false
					}
					b2, okh := hex2(s, k+1)
					if !okh {
						return nil, false
					}
					if b2&0xC0 != 0x80 {
						return nil, false
					}
					k += 2
					octets = append(octets, byte(b2))
				}
				v, okv := utf8Value(octets) // 8
				if !okv {
					return nil, false
				}
				if v < 0x10000 { // 9
					cc := uint16(v)
					if !in(reserved, cc) {
						r = append(r, cc)
					} else {
						r = append(r, s[start:k+1]...)
					}
				} else { // 10
					l := uint16((v-0x10000)&0x3FF) + 0xDC00
					h := uint16(((v-0x10000)>>10)&0x3FF) + 0xD800
					r = append(r, h, l)
				}
			}
		}
		k++ // 4.f
	}
}

// EncodeURI is 15.1.3.3. ok=false means URIError.
func EncodeURI(s []uint16) ([]uint16, bool) { return encode(s, &unescapedURISet) }

// EncodeURIComponent is 15.1.3.4.
func EncodeURIComponent(s []uint16) ([]uint16, bool) { return encode(s, &unescapedURIComponentSet) }

// DecodeURI is 15.1.3.1.
func DecodeURI(s []uint16) ([]uint16, bool) { return decode(s, &reservedURISet) }

// DecodeURIComponent is 15.1.3.2.
func DecodeURIComponent(s []uint16) ([]uint16, bool) { return decode(s, &reservedURIComponentSet) }

// Escape is B.2.1.
func Escape(s []uint16) []uint16 {
	r := []uint16{}
	for _, c := range s {
		switch {
		case in(&escapeKeep, c): // step 6
			r = append(r, c)
		case c < 256: // step 11
			r = append(r, '%', uint16(hexUpper[c>>4]), uint16(hexUpper[c&15]))
		default: // step 8
			r = append(r, '%', 'u', uint16(hexUpper[c>>12]), uint16(hexUpper[(c>>8)&15]), uint16(hexUpper[(c>>4)&15]), uint16(hexUpper[c&15]))
		}
	}
	return r
}

// Unescape is B.2.2.
func Unescape(s []uint16) []uint16 {
	r := []uint16{}
	n := len(s)
	for k := 0; k < n; k++ {
		c := s[k]
		if c == '%' {
			done := false
			if k <= n-6 && s[k+1] == 'u' { // steps 7-9
				h, ok1 := hex2(s, k+2)
				l, ok2 := hex2(s, k+4)
				if ok1 && ok2 {
					c = uint16(h<<8 | l) // step 10
					k += 5               // step 11
					done = true
				}
			}
			if !done && k <= n-3 { // steps 14-17
				if v, ok := hex2(s, k+1); ok {
					c = uint16(v)
					k += 2
				}
			}
		}
		r = append(r, c) // step 18
	}
	return r
}

// WellFormed reports whether s has no unpaired surrogate code unit.
func WellFormed(s []uint16) bool {
	for i := 0; i < len(s); i++ {
		c := s[i]
		if c >= 0xD800 && c <= 0xDBFF {
			if i+1 < len(s) && s[i+1] >= 0xDC00 && s[i+1] <= 0xDFFF {
				i++
				continue
			}
			return false
		}
		if c >= 0xDC00 && c <= 0xDFFF {
			return false
		}
	}
	return true
}

// LoseSurrogates returns s with every unpaired surrogate code unit replaced by
// U+FFFD — what happens to a JavaScript string that is stored as UTF-8. It is
// not part of the specification; it is the alternative model used by the
// narrow known-finding signatures of the check.
func LoseSurrogates(s []uint16) []uint16 {
	r := make([]uint16, 0, len(s))
	for i := 0; i < len(s); i++ {
		c := s[i]
		if c >= 0xD800 && c <= 0xDBFF && i+1 < len(s) && s[i+1] >= 0xDC00 && s[i+1] <= 0xDFFF {
			r = append(r, c, s[i+1])
			i++
			continue
		}
		if c >= 0xD800 && c <= 0xDFFF {
			c = 0xFFFD
		}
		r = append(r, c)
	}
	return r
}

// IsNaN is 15.1.2.4 applied to the ToNumber result.
func IsNaN(x float64) bool { return x != x }

// IsFinite is 15.1.2.5 applied to the ToNumber result.
func IsFinite(x float64) bool {
	return x == x && x != math.Inf(1) && x != math.Inf(-1)
}
