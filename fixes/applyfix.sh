#!/bin/bash
# usage: applyfix.sh <diff> "<commit message (without the fix: prefix)>"
# Applies one proposed repair to /repo, runs the pinned suite, commits as "fix: ...".
set -u
export GOFLAGS=-mod=mod GOPROXY=off GOSUMDB=off GOTOOLCHAIN=local
D=$1; MSG=$2
cd /repo || exit 2
[ -z "$(git status --porcelain)" ] || { echo "repo dirty"; exit 2; }
git apply --check "$D" 2>/tmp/applyfix.err || { echo "DOES NOT APPLY: $D"; cat /tmp/applyfix.err; exit 1; }
git apply "$D"
if ! go build ./... 2>/tmp/applyfix.err; then echo "BUILD FAILS: $D"; cat /tmp/applyfix.err; git checkout -q -- .; git clean -fdq; exit 1; fi
if ! go test -vet=off -count=1 ./... >/tmp/applyfix.log 2>&1; then echo "SUITE FAILS: $D"; grep -E "^(--- FAIL|FAIL|panic)" /tmp/applyfix.log | head; git checkout -q -- .; git clean -fdq; exit 1; fi
gofmt -l $(git diff --name-only | grep '\.go$') 
git add -A && git commit -qm "fix: $MSG" && echo "APPLIED $(git log --oneline | head -1)"
