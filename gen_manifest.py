#!/usr/bin/env python3
"""Regenerates /verif/MANIFEST.json from the table below (single source of truth)."""
import json

ALL = ["C%02d" % i for i in range(1, 21)]

# id -> dict(engine, technique, level_text, level_note, design_ref)
CLAIMED = {
 "C14": dict(engine="E1/E2 finite table + graph BFS", technique="exhaustive enumeration of a finite spec table against the implementation, plus BFS over the real object graph",
   text="The space is finite (every (owner, property) pair of ES5 15.1-15.12 x 4 configurations) and is enumerated completely on every run; the reverse direction walks every object reachable from the global object. exhaustive=true.",
   note="Trusted base: ref/shape (spec transcription), the runtime's own Object.getOwnPropertyDescriptor / typeof / Object.prototype.toString for observation.", ref="DESIGN.md §3 C14"),
}

NOT_YET = "check not built yet in this session (machinery under construction); not claimed until it runs clean on the unchanged tree"

def main():
    checks = []
    for pid in ALL:
        if pid not in CLAIMED:
            continue
        c = CLAIMED[pid]
        checks.append({
            "property_id": pid,
            "quick_cmd": "./run.sh %s quick" % pid,
            "thorough_cmd": "./run.sh %s thorough" % pid,
            "evidence_file": "/verif/evidence/%s.json" % pid,
            "replay_cmd_template": "/verif/.bin/mc replay {path}",
            "engine": c["engine"],
            "level_claimed": {"category": "model_checking", "text": c["text"], "design_ref": c["ref"]},
            "level_note": c["note"],
            "technique": c["technique"],
        })
    m = {
        "version": 1,
        "setup_cmd": "./setup.sh",
        "hooks": {
            "guard": "verif",
            "enable": "go build -tags verif (run.sh builds /verif/mc with -tags verif against /repo via a replace directive)",
            "baseline_off_cmd": "cd /repo && GOFLAGS=-mod=mod GOPROXY=off GOSUMDB=off GOTOOLCHAIN=local go test -json -vet=off -count=1 -timeout 25m ./...",
            "source_commits": ["5b99b2c"],
            "add_only": True,
        },
        "engines": [
            {"name": "E1", "path": "mc/engine/choose.go", "serves_properties": sorted(CLAIMED), "kind_free_text": "choice-tree explorer: deviation-bounded stateless DFS and full-product enumeration, sharded over worker subprocesses"},
            {"name": "supervisor", "path": "mc/engine/super.go", "serves_properties": sorted(CLAIMED), "kind_free_text": "worker subprocess pool with per-case watchdog and crash attribution; known-finding classification; evidence writer"},
        ],
        "checks": checks,
        "notes": "All checks are bounded exhaustive explorations driving the real otto code (see DESIGN.md). Known findings: findings/known.json.",
        "not_applicable": [{"property_id": p, "reason": NOT_YET} for p in ALL if p not in CLAIMED],
    }
    json.dump(m, open("/verif/MANIFEST.json", "w"), indent=1)
    print("wrote MANIFEST.json with", len(checks), "checks")

main()
