#!/usr/bin/env python3
"""Regenerates /verif/MANIFEST.json from the table below (single source of truth)."""
import json

ALL = ["C%02d" % i for i in range(1, 21)]

# id -> dict(engine, technique, level_text, level_note, design_ref)
# id -> (engine, technique, level text, trusted base / assumptions)
INFO = {
 "C01": ("E1 choice-tree DFS + ref/js", "deviation-bounded exhaustive program enumeration against a reference ES5 interpreter, all five submission routes",
   "Every program of the stated grammar families within the depth/deviation bounds is generated, run on the real interpreter on five routes and compared (host-call log, completion value, exception class) with an independent ES5 reference evaluator executed in lock-step.",
   "Trusted base: ref/js (ES5.1 transcription); programs outside the family bounds are not covered."),
 "C02": ("E1 full products over the discovered built-in surface, byte/token strings, recursion grid", "exhaustive enumeration of (function, receiver, arguments) triples, short sources and (limit, depth, call form) cells on the real API with crash/hang detection",
   "The oracle is the property itself (API returns, no Go panic, no worker death, watchdog silent); the enumerated spaces are complete within the stated arities/lengths.",
   "Trusted base: harness recover/watchdog; inputs longer than the stated bounds are outside."),
 "C03": ("E1 tree generator x renderings + ref/syntax", "exhaustive enumeration of syntax trees and their renderings, otto AST compared node-by-node with the generating tree",
   "All operator pairs/triples, chains, for-headers, ASI matrix, literals within the bounds, each in minimal/full/deviating renderings; reference recogniser self-checks every rendering.",
   "Trusted base: ref/syntax generator/renderer; trees deeper than the bounds are outside."),
 "C04": ("E1 byte/token strings, corpus mutations + ref/syntax recogniser", "exhaustive enumeration of byte strings, token strings and 1-2 edit mutations; totality, reject-direction, span and Walk invariants",
   "Every string within the length/alphabet bounds and every single-edit mutation of the corpus is parsed by the real parser; rejection compared with an independent ES5 recogniser; every node of every accepted tree checked.",
   "Trusted base: ref/syntax recogniser; longer inputs are outside."),
 "C05": ("E1 full products + ref/conv", "exhaustive product V x V x operators against an ES5 section 9/11 reference model, plus representation-differential",
   "All pairs of a ~230/380-value boundary set under all 24 binary and 11 unary operators, all conversion observers, operand-order forms; compared by IEEE class / string / thrown class / coercion log.",
   "Trusted base: ref/conv; values outside V are outside (dense numeric sweep is C06)."),
 "C06": ("E1 lattice enumeration + ref/num (math/big)", "exhaustive enumeration of a structured double lattice and numeric-string grammars against exact big-rational arithmetic",
   "Every lattice double x every format (toString/radix/toFixed/toExponential/toPrecision), every grammar string within bounds x every text->number entry point; verdict from exact arithmetic.",
   "Trusted base: ref/num; doubles off the lattice and longer strings are outside."),
 "C07": ("E2 explicit-state BFS over real objects + ref/objmodel", "explicit-state search to fixpoint of the property-slot machine (729 descriptors + ops), bounded BFS over chains, every transition replayed on the implementation",
   "State = (model state, implementation observation); closed to fixpoint for one slot (unbounded history length), depth-bounded for chains; full observation compared after every transition.",
   "Trusted base: ref/objmodel (ES5 8.10/8.12/15.2.3 transcription); more than 3 objects/names outside."),
 "C08": ("E1 products + E2 histories + ref/objmodel arrays", "exhaustive enumeration of small arrays x methods x arguments, index canonicalisation and length tables, BFS over mutation histories",
   "All arrays up to the length bound over a 5-element alphabet and variant receivers, all 15.4.4 methods with boundary position arguments and scripted callbacks; histories by BFS; compared with step-by-step 15.4 transcription.",
   "Trusted base: ref/objmodel; longer arrays and receiver-mutating callbacks mostly outside."),
 "C09": ("E1 full products + ref/str16", "exhaustive enumeration of UTF-16 strings up to length 3 x methods x position arguments against a code-unit reference",
   "All strings over an 8-unit alphabet incl. astral pairs and lone surrogates, all search strings <=2, all boundary positions, all receivers.",
   "Trusted base: ref/str16; longer strings outside."),
 "C10": ("E1 pattern x subject products, E2 lastIndex protocol BFS + ref/regex", "exhaustive enumeration of small patterns x flags x subjects against a spec-style backtracking matcher; protocol BFS to fixpoint",
   "All portable-subset patterns up to the size bound, all mutations with unsupported/malformed symbols, protocol histories closed over (lastIndex, writable).",
   "Trusted base: ref/regex (15.10.2 transcription); larger patterns outside."),
 "C11": ("E1 token strings, value products, mutations + ref/json", "exhaustive enumeration of JSON token strings, values x replacers x gaps, single-character mutations against a 15.12 transcription",
   "Every token string up to the length bound, every depth-bounded value as text and as live value, all argument families; accept/reject, denotation, call logs and layout compared.",
   "Trusted base: ref/json; deeper values/longer texts outside."),
 "C12": ("E1 sweeps/deviation tuples + E2 setter histories + ref/date", "exhaustive day sweep of 400-year cycles, deviation-bounded field tuples, BFS over setter histories against integer 15.9.1 algebra",
   "Every day of full Gregorian cycles, all tuples with <=2 deviating fields, setter histories by BFS with every transition replayed on a real Date.",
   "Trusted base: ref/date; local time and non-ISO parse out of scope."),
 "C13": ("E1 full products + ref/mathspec, ref/uri", "exhaustive products of boundary doubles for Math, all code-unit strings up to the bound for URI coding against 15.8.2 tables and 15.1.3 transcription",
   "Special-case table everywhere plus exactness/monotonicity/inverse laws; every string over the unit alphabets for all six URI functions incl. round trips.",
   "Trusted base: ref/mathspec, ref/uri; transcendental accuracy beyond stated tolerances outside."),
 "C14": ("finite table + graph BFS", "exhaustive enumeration of a finite spec table against the implementation, plus BFS over the real object graph",
   "The space is finite (every (owner, property) pair of ES5 15.1-15.12 x 4 configurations) and is enumerated completely on every run; the reverse direction walks every object reachable from the global object; distinguishing calls are repeated under four fixed non-UTC zones, prototype objects are probed for their kind, dynamic function shapes and copy/isolation histories are enumerated. exhaustive=true.",
   "Trusted base: ref/shape (spec transcription), the runtime's own Object.getOwnPropertyDescriptor / typeof / Object.prototype.toString for observation."),
 "C15": ("E1 full products", "exhaustive enumeration of boundary Go values of every kind and JS values through Set/Get/Export/To*/Call paths with identity and differential oracles",
   "Every boundary value of every Go kind, depth-bounded containers, all call paths; round-trip identity / in-language twin comparison.",
   "Trusted base: reflect.DeepEqual-based oracle and documented API promises."),
 "C16": ("E1 conversion matrix + E2 container histories", "full product parameter types x JS arguments with an exact-or-loud oracle; BFS over container histories comparing script view and Go view after every step",
   "34 parameter types x 3 positions x ~45 arguments; live-container histories by BFS with dedup on container contents.",
   "Trusted base: reflect view of live containers; histories longer than the bound outside."),
 "C17": ("E1 ingredient subsets x mutations + E5 heap walker", "exhaustive enumeration of heap-ingredient subsets x mutations x directions with a generic dump oracle, plus structural heap-sharing invariant by reflection",
   "Every subset of <=2/3 of ~28 heap ingredients, every applicable mutation, both directions and copy-of-copy; heap graphs of original and copy intersect only in allow-listed immutables.",
   "Trusted base: the JS dump program (runs on the implementation), heap walker allow-list."),
 "C18": ("E3 step-hooked injection explorer", "exhaustive enumeration of every evaluation step of every wrapper-nesting program as injection point (interrupt, host panic, throw, stack limit) with monitors on the real run",
   "Every (program, step) pair within the wrapper depth bound; delivery, identical re-panic, rest state, committed effects, reusability and limit thresholds checked.",
   "Trusted base: verif step hook numbering; wall-clock interrupts from other goroutines are covered only via the same code path."),
 "C19": ("E1 products (constructs x shapes x layouts)", "exhaustive enumeration of error constructs x nesting shapes x layouts; the generator is the oracle for class, message and positions",
   "All constructs x shapes x layouts x entry modes within bounds; traces explained either by the convention or by a registered known finding.",
   "Trusted base: the position convention derived from the pinned tests."),
 "C20": ("E4 cooperative scheduler, preemption-bounded DFS + E5 + separate -race pass", "stateless DFS over all schedules of 2-3 runtimes with <= b preemptions at evaluation-step granularity; structural heap-sharing check; data-race half by the Go race detector on free-running executions of the same bodies",
   "All schedules up to the preemption bound for every scenario/body pair; each runtime's log equals its solo log; shared Script/Program hash unchanged; heap intersection allow-listed. The 'no data race' half is decided by the race detector (happens-before analysis over executed accesses), not by enumeration.",
   "Trusted base: step hook as scheduling points; race detector for unsynchronised accesses inside built-ins."),
}

BUILT = ["C01", "C02", "C03", "C04", "C05", "C06", "C07", "C08", "C09", "C10", "C11", "C12", "C13", "C14", "C15", "C16", "C17", "C18", "C19", "C20"]
NOT_YET = "check not built yet in this session (machinery under construction); not claimed until it runs clean on the unchanged tree"

def main():
    checks = []
    for pid in ALL:
        if pid not in BUILT:
            continue
        e = INFO[pid]
        c = dict(engine=e[0], technique=e[1], text=e[2], note=e[3], ref="DESIGN.md §3 " + pid)
        checks.append({
            "property_id": pid,
            "quick_cmd": "./run.sh %s quick" % pid,
            "thorough_cmd": "./run.sh %s thorough" % pid,
            "evidence_file": "/verif/evidence/%s.json" % pid,
            "replay_cmd_template": "/verif/.bin/mc replay {path}",
            "engine": c["engine"],
            "level_claimed": {"category": "model_checking", "text": c["text"], "design_ref": c["ref"]},
            "level_note": c["note"],
            "technique": c["technique"],
        })
    m = {
        "version": 1,
        "setup_cmd": "./setup.sh",
        "hooks": {
            "guard": "verif",
            "enable": "go build -tags verif (run.sh builds /verif/mc with -tags verif against /repo via a replace directive)",
            "baseline_off_cmd": "cd /repo && GOFLAGS=-mod=mod GOPROXY=off GOSUMDB=off GOTOOLCHAIN=local go test -json -vet=off -count=1 -timeout 25m ./...",
            "source_commits": ["5b99b2c", "f8abbcd"],
            "add_only": True,
        },
        "engines": [
            {"name": "E1", "path": "mc/engine/choose.go", "serves_properties": sorted(BUILT), "kind_free_text": "choice-tree explorer: deviation-bounded stateless DFS and full-product enumeration, sharded over worker subprocesses"},
            {"name": "supervisor", "path": "mc/engine/super.go", "serves_properties": sorted(BUILT), "kind_free_text": "worker subprocess pool with per-case watchdog and crash attribution; known-finding classification; evidence writer"},
        ],
        "checks": checks,
        "notes": "All checks are bounded exhaustive explorations driving the real otto code (see DESIGN.md). Known findings: findings/known.json.",
        "not_applicable": [{"property_id": p, "reason": NOT_YET} for p in ALL if p not in BUILT],
    }
    json.dump(m, open("/verif/MANIFEST.json", "w"), indent=1)
    print("wrote MANIFEST.json with", len(checks), "checks")

main()
