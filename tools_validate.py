#!/opt/veriftools/pyvenv/bin/python
import json,sys,jsonschema,glob
ok=True
m=json.load(open('/verif/MANIFEST.json'))
jsonschema.validate(m,json.load(open('/root/.vp/MANIFEST.schema.json')))
print("manifest ok; checks:",len(m['checks']),"not_applicable:",len(m.get('not_applicable',[])))
for f in sorted(glob.glob('/verif/evidence/*.json')):
    try:
        jsonschema.validate(json.load(open(f)),json.load(open('/root/.vp/EVIDENCE.schema.json')))
        print("ok",f)
    except Exception as e:
        ok=False; print("BAD",f,str(e)[:300])
# stale-finding lint: an OPEN known finding that no longer matches anything on the current tree
# would silently absorb a future regression of the same shape (this happened with F-C04-026
# after its fix landed): every open entry must be matched by the latest evidence of its property.
op={}
for f in ['/verif/findings/known.json']+sorted(glob.glob('/verif/findings/known.d/*.json')):
    for e in json.load(open(f)):
        if e.get('status')=='open': op[e['id']]=e
matched=set()
for f in glob.glob('/verif/evidence/*.json')+glob.glob('/verif/thorough-evidence/*.json'):
    for l in json.load(open(f))['coverage'].get('known_findings_matched') or []:
        matched.add(l.split(' x')[0])
for i in sorted(op):
    if i not in matched:
        ok=False; print("STALE open finding (matched by no case of the latest run):",i,op[i]['title'][:100])
print("open findings:",len(op),"all matched" if all(i in matched for i in op) else "")
sys.exit(0 if ok else 1)
