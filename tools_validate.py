#!/opt/veriftools/pyvenv/bin/python
import json,sys,jsonschema,glob
ok=True
m=json.load(open('/verif/MANIFEST.json'))
jsonschema.validate(m,json.load(open('/root/.vp/MANIFEST.schema.json')))
print("manifest ok; checks:",len(m['checks']),"not_applicable:",len(m.get('not_applicable',[])))
for f in sorted(glob.glob('/verif/evidence/*.json')):
    try:
        jsonschema.validate(json.load(open(f)),json.load(open('/root/.vp/EVIDENCE.schema.json')))
        print("ok",f)
    except Exception as e:
        ok=False; print("BAD",f,str(e)[:300])
sys.exit(0 if ok else 1)
